	// ===== engine K harnesses for rcgen/src/string.rs =====
	// Alphabets: X.680 41.4 (PrintableString), 41 / T.50 (IA5String), and the property text
	// (Teletex U+0020..U+007F, BMPString U+0000..U+FFFE, UniversalString any scalar value).
	use crate::string::{BmpString, Ia5String, PrintableString, TeletexString, UniversalString};

	fn printable_ok(c: char) -> bool {
		matches!(c, 'A'..='Z' | 'a'..='z' | '0'..='9' | ' ' | '\'' | '(' | ')' | '+' | ',' | '-' | '.' | '/' | ':' | '=' | '?')
	}
	fn same(a: &[u8], b: &[u8]) -> bool {
		if a.len() != b.len() { return false; }
		let mut i = 0;
		while i < a.len() { if a[i] != b[i] { return false; } i += 1; }
		true
	}

	/// @ob printable.one_char @props C02,C04,C10,C13,C18 @kind forall @tier quick @timeout 900 @replay str_printable @bound "every Unicode scalar value as a one-character string" @fns rcgen::string::PrintableString::try_from
	#[kani::proof]
	#[kani::unwind(6)]
	fn printable_one_char() {
		let c: char = kani::any();
		let mut buf = [0u8; 4];
		let s: &str = c.encode_utf8(&mut buf);
		kani::cover!(true, "reachable");
		match PrintableString::try_from(s) {
			Ok(p) => { assert!(printable_ok(c), "accepted only if in the alphabet"); assert!(same(p.as_str().as_bytes(), s.as_bytes()), "stored losslessly"); },
			Err(_) => assert!(!printable_ok(c), "rejected only if outside the alphabet"),
		}
	}

	/// `str::is_ascii` is modelled by CBMC through SIMD / alignment-dependent loops that exhaust memory; the
	/// obvious byte loop is substituted (trusted: it is the definition of ASCII, every byte < 0x80).
	fn simple_is_ascii(s: &str) -> bool {
		let b = s.as_bytes();
		let mut i = 0;
		while i < b.len() { if b[i] >= 0x80 { return false; } i += 1; }
		true
	}

	/// @ob ia5.one_char @props C02,C04,C10,C13,C18 @kind forall @tier quick @timeout 900 @mem 16 @replay str_ia5 @bound "every Unicode scalar value as a one-character string" @fns rcgen::string::Ia5String::try_from
	#[kani::proof]
	#[kani::unwind(6)]
	#[kani::stub(str::is_ascii, simple_is_ascii)]
	fn ia5_one_char() {
		let c: char = kani::any();
		let mut buf = [0u8; 4];
		let s: &str = c.encode_utf8(&mut buf);
		kani::cover!(true, "reachable");
		match Ia5String::try_from(s) {
			Ok(p) => { assert!((c as u32) <= 0x7f); assert!(same(p.as_str().as_bytes(), s.as_bytes())); },
			Err(_) => assert!((c as u32) > 0x7f),
		}
	}

	/// @ob teletex.one_char @props C02,C10,C13 @kind forall @tier quick @timeout 900 @replay str_teletex @bound "every Unicode scalar value as a one-character string" @fns rcgen::string::TeletexString::try_from
	#[kani::proof]
	#[kani::unwind(6)]
	fn teletex_one_char() {
		let c: char = kani::any();
		let mut buf = [0u8; 4];
		let s: &str = c.encode_utf8(&mut buf);
		kani::cover!(true, "reachable");
		let ok = (c as u32) >= 0x20 && (c as u32) <= 0x7f;
		match TeletexString::try_from(s) {
			Ok(p) => { assert!(ok); assert!(same(p.as_bytes(), s.as_bytes())); assert!(same(p.as_str().as_bytes(), s.as_bytes())); },
			Err(_) => assert!(!ok),
		}
	}

	/// @ob bmp.one_char @props C02,C10,C13 @kind forall @tier quick @timeout 1500 @mem 16 @replay str_bmp @bound "every Unicode scalar value as a one-character string" @fns rcgen::string::BmpString::try_from,rcgen::string::BmpString::from_utf16be
	#[kani::proof]
	#[kani::unwind(6)]
	fn bmp_one_char() {
		let c: char = kani::any();
		let mut buf = [0u8; 4];
		let s: &str = c.encode_utf8(&mut buf);
		kani::cover!(true, "reachable");
		match BmpString::try_from(s) {
			Ok(p) => {
				assert!((c as u32) <= 0xFFFE, "only the basic multilingual plane without U+FFFF");
				let b = p.as_bytes();
				assert!(b.len() == 2 && ((b[0] as u32) << 8 | b[1] as u32) == c as u32, "stored as UTF-16BE (UCS-2)");
			},
			Err(_) => assert!((c as u32) > 0xFFFE),
		}
	}

	/// @ob universal.one_char @props C02,C10,C13 @kind forall @tier quick @timeout 1500 @mem 16 @replay str_universal @bound "every Unicode scalar value as a one-character string" @fns rcgen::string::UniversalString::try_from,rcgen::string::UniversalString::from_utf32be
	#[kani::proof]
	#[kani::unwind(6)]
	fn universal_one_char() {
		let c: char = kani::any();
		let mut buf = [0u8; 4];
		let s: &str = c.encode_utf8(&mut buf);
		kani::cover!(true, "reachable");
		match UniversalString::try_from(s) {
			Ok(p) => {
				let b = p.as_bytes();
				assert!(b.len() == 4 && u32::from_be_bytes([b[0], b[1], b[2], b[3]]) == c as u32, "stored as UTF-32BE");
			},
			Err(_) => assert!(false, "every scalar value is a UniversalString character"),
		}
	}

	fn bmp_unit_ok(u: u16) -> bool { !(0xD800..=0xDFFF).contains(&u) && u != 0xFFFF }

	/// @ob bmp.from_utf16be.short @props C13,C10 @kind forall @tier quick @timeout 900 @replay bytes_bmp3 @bound "every byte string of length 0, 1, 2 and 3" @fns rcgen::string::BmpString::from_utf16be
	#[kani::proof]
	#[kani::unwind(6)]
	fn bmp_from_utf16be_short() {
		let v: [u8; 3] = kani::any();
		kani::cover!(true, "reachable");
		assert!(BmpString::from_utf16be(Vec::new()).is_ok());
		assert!(BmpString::from_utf16be(vec![v[0]]).is_err(), "odd length");
		assert!(BmpString::from_utf16be(v.to_vec()).is_err(), "odd length");
		let u = u16::from_be_bytes([v[0], v[1]]);
		match BmpString::from_utf16be(vec![v[0], v[1]]) {
			Ok(p) => { assert!(bmp_unit_ok(u)); assert!(p.as_bytes().len() == 2 && p.as_bytes()[0] == v[0] && p.as_bytes()[1] == v[1]); },
			Err(_) => assert!(!bmp_unit_ok(u), "a lone BMP code unit is well formed"),
		}
	}

	/// @ob bmp.from_utf16be.two_units @props C13,C10 @kind forall @tier quick @timeout 900 @replay bytes_bmp4 @bound "every byte string of length 4 (lone and paired surrogates included)" @fns rcgen::string::BmpString::from_utf16be
	#[kani::proof]
	#[kani::unwind(6)]
	fn bmp_from_utf16be_two_units() {
		let v: [u8; 4] = kani::any();
		kani::cover!(true, "reachable");
		let u0 = u16::from_be_bytes([v[0], v[1]]);
		let u1 = u16::from_be_bytes([v[2], v[3]]);
		let r = BmpString::from_utf16be(v.to_vec());
		// a surrogate pair decodes to a character outside the BMP: not a BMPString
		assert!(r.is_ok() == (bmp_unit_ok(u0) && bmp_unit_ok(u1)));
		if let Ok(p) = r { assert!(same(p.as_bytes(), &v)); }
	}

	/// @ob universal.from_utf32be @props C13,C10 @kind forall @tier quick @timeout 900 @replay bytes_universal @bound "every byte string of length 0..=4" @fns rcgen::string::UniversalString::from_utf32be
	#[kani::proof]
	#[kani::unwind(6)]
	fn universal_from_utf32be() {
		let v: [u8; 4] = kani::any();
		kani::cover!(true, "reachable");
		assert!(UniversalString::from_utf32be(Vec::new()).is_ok());
		assert!(UniversalString::from_utf32be(vec![v[0]]).is_err());
		assert!(UniversalString::from_utf32be(vec![v[0], v[1]]).is_err());
		assert!(UniversalString::from_utf32be(vec![v[0], v[1], v[2]]).is_err());
		let x = u32::from_be_bytes(v);
		let scalar = x <= 0x10FFFF && !(0xD800..=0xDFFF).contains(&x);
		match UniversalString::from_utf32be(v.to_vec()) {
			Ok(p) => { assert!(scalar, "only Unicode scalar values"); assert!(same(p.as_bytes(), &v)); },
			Err(_) => assert!(!scalar),
		}
	}

	/// @ob ia5.accepted_serialises @props C13,C10 @kind forall @tier quick @timeout 900 @bound "every one-character string" @fns rcgen::string::Ia5String::try_from
	#[kani::proof]
	#[kani::unwind(8)]
	#[kani::stub(str::is_ascii, simple_is_ascii)]
	fn ia5_accepted_serialises() {
		let c: char = kani::any();
		let mut buf = [0u8; 4];
		let s: &str = c.encode_utf8(&mut buf);
		kani::cover!(true, "reachable");
		if let Ok(p) = Ia5String::try_from(s) {
			// precondition of yasna's asserting writer holds for every accepted value; tag 22, content = the text
			let der = yasna::construct_der(|w| w.write_ia5_string(p.as_str()));
			assert!(der.len() == 3 && der[0] == 22 && der[1] == 1 && der[2] == c as u8);
		}
	}

	/// @ob printable.two_chars @props C13 @kind bounded @tier thorough @timeout 1800 @mem 16 @bound "every two-character string" @fns rcgen::string::PrintableString::try_from
	#[kani::proof]
	#[kani::unwind(10)]
	fn printable_two_chars() {
		let c: char = kani::any();
		let d: char = kani::any();
		let mut s = String::new();
		s.push(c);
		s.push(d);
		kani::cover!(true, "reachable");
		let r = PrintableString::try_from(s.as_str());
		assert!(r.is_ok() == (printable_ok(c) && printable_ok(d)));
	}

	/// @ob ia5.two_chars @props C13 @kind bounded @tier thorough @timeout 1800 @mem 16 @bound "every two-character string" @fns rcgen::string::Ia5String::try_from
	#[kani::proof]
	#[kani::unwind(10)]
	#[kani::stub(str::is_ascii, simple_is_ascii)]
	fn ia5_two_chars() {
		let c: char = kani::any();
		let d: char = kani::any();
		let mut s = String::new();
		s.push(c);
		s.push(d);
		kani::cover!(true, "reachable");
		let r = Ia5String::try_from(s.as_str());
		assert!(r.is_ok() == ((c as u32) < 0x80 && (d as u32) < 0x80));
	}

	/// @ob teletex.two_chars @props C13 @kind bounded @tier thorough @timeout 1800 @mem 16 @bound "every two-character string" @fns rcgen::string::TeletexString::try_from
	#[kani::proof]
	#[kani::unwind(10)]
	fn teletex_two_chars() {
		let c: char = kani::any();
		let d: char = kani::any();
		let mut s = String::new();
		s.push(c);
		s.push(d);
		kani::cover!(true, "reachable");
		let ok = |x: char| (x as u32) >= 0x20 && (x as u32) <= 0x7f;
		let r = TeletexString::try_from(s.as_str());
		assert!(r.is_ok() == (ok(c) && ok(d)));
	}
