	// ===== engine K harnesses for rcgen/src/certificate.rs =====
	use crate::verif_lib::{bare_params, fixed_random_state, ku_of};
	use crate::{RemoteKeyPair, SignatureAlgorithm, PKCS_ED25519};
	use std::net::IpAddr;
	use pki_types::CertificateDer;
	use time::OffsetDateTime;
	use yasna::{DERWriter, Tag};

	/// number of leading one bits of a big-endian mask, or None if the mask is not contiguous
	pub(crate) fn mask_ok(mask: &[u8], prefix: u8) -> bool {
		let width = (mask.len() * 8) as u32;
		let ones = if (prefix as u32) < width { prefix as u32 } else { width };
		let mut i = 0u32;
		let mut ok = true;
		while i < width {
			let bit = mask[(i / 8) as usize] & (0x80u8 >> (i % 8)) != 0;
			if bit != (i < ones) { ok = false; }
			i += 1;
		}
		ok
	}

	/// @ob cidr.v4_prefix @props C02,C10 @kind forall @tier quick @replay cidr4 @fns rcgen::CidrSubnet::from_v4_prefix
	/// @bound "all 2^32 addresses x all 256 prefix lengths"
	#[kani::proof_for_contract(CidrSubnet::from_v4_prefix)]
	#[kani::unwind(34)]
	fn cidr_v4_contract() {
		let a: [u8; 4] = kani::any();
		let p: u8 = kani::any();
		kani::cover!(true, "reachable");
		let _ = CidrSubnet::from_v4_prefix(a, p);
	}

	/// @ob cidr.v6_prefix @props C02,C10 @kind forall @tier quick @replay cidr6 @fns rcgen::CidrSubnet::from_v6_prefix
	/// @bound "all 2^128 addresses x all 256 prefix lengths"
	#[kani::proof_for_contract(CidrSubnet::from_v6_prefix)]
	#[kani::unwind(130)]
	fn cidr_v6_contract() {
		let a: [u8; 16] = kani::any();
		let p: u8 = kani::any();
		kani::cover!(true, "reachable");
		let _ = CidrSubnet::from_v6_prefix(a, p);
	}

	/// @ob cidr.from_addr_prefix @props C02,C10 @kind forall @tier quick @replay cidr4 @fns rcgen::CidrSubnet::from_addr_prefix
	#[kani::proof]
	#[kani::unwind(34)]
	fn cidr_from_addr_prefix_v4() {
		let a: [u8; 4] = kani::any();
		let p: u8 = kani::any();
		kani::cover!(true, "reachable");
		match CidrSubnet::from_addr_prefix(IpAddr::from(a), p) {
			CidrSubnet::V4(addr, mask) => { assert!(addr == a); assert!(mask_ok(&mask, p)); },
			_ => assert!(false, "IPv4 address must give a V4 subnet"),
		}
	}

	/// @ob cidr.to_bytes @props C02,C17 @kind forall @tier quick @fns rcgen::CidrSubnet::to_bytes
	#[kani::proof]
	#[kani::unwind(34)]
	fn cidr_to_bytes() {
		// RFC 5280 4.2.1.10: iPAddress in name constraints = address octets followed by mask octets (8 or 32 octets)
		let a4: [u8; 4] = kani::any();
		let m4: [u8; 4] = kani::any();
		let a6: [u8; 16] = kani::any();
		let m6: [u8; 16] = kani::any();
		kani::cover!(true, "reachable");
		let b4 = CidrSubnet::V4(a4, m4).to_bytes();
		assert!(b4.len() == 8);
		let mut i = 0;
		while i < 4 { assert!(b4[i] == a4[i] && b4[4 + i] == m4[i]); i += 1; }
		let b6 = CidrSubnet::V6(a6, m6).to_bytes();
		assert!(b6.len() == 32);
		let mut i = 0;
		while i < 16 { assert!(b6[i] == a6[i] && b6[16 + i] == m6[i]); i += 1; }
	}

	/// @ob subtree.tag_table @props C02 @kind forall @tier quick @fns rcgen::GeneralSubtree::tag
	#[kani::proof]
	#[kani::unwind(4)]
	#[kani::stub(std::hash::RandomState::new, fixed_random_state)]
	fn subtree_tag_table() {
		// RFC 5280 p.38 GeneralName: rfc822Name [1], dNSName [2], directoryName [4], iPAddress [7]
		let a: [u8; 4] = kani::any();
		kani::cover!(true, "reachable");
		assert!(GeneralSubtree::Rfc822Name(String::new()).tag() == 1);
		assert!(GeneralSubtree::DnsName(String::new()).tag() == 2);
		assert!(GeneralSubtree::DirectoryName(DistinguishedName::new()).tag() == 4);
		assert!(GeneralSubtree::IpAddress(CidrSubnet::V4(a, a)).tag() == 7);
	}

	fn oid_is(got: &[u64], want: &[u64]) -> bool {
		if got.len() != want.len() { return false; }
		let mut i = 0;
		while i < want.len() { if got[i] != want[i] { return false; } i += 1; }
		true
	}

	/// @ob eku.oid_table @props C02,C07 @kind forall @tier quick @fns rcgen::ExtendedKeyUsagePurpose::oid
	#[kani::proof]
	#[kani::unwind(12)]
	fn eku_oid_table() {
		// RFC 5280 4.2.1.12: anyExtendedKeyUsage = id-ce-extKeyUsage 0 = 2.5.29.37.0; id-kp = 1.3.6.1.5.5.7.3;
		// serverAuth 1, clientAuth 2, codeSigning 3, emailProtection 4, timeStamping 8, OCSPSigning 9
		let x: [u64; 3] = kani::any();
		kani::cover!(true, "reachable");
		assert!(oid_is(ExtendedKeyUsagePurpose::Any.oid(), &[2, 5, 29, 37, 0]));
		assert!(oid_is(ExtendedKeyUsagePurpose::ServerAuth.oid(), &[1, 3, 6, 1, 5, 5, 7, 3, 1]));
		assert!(oid_is(ExtendedKeyUsagePurpose::ClientAuth.oid(), &[1, 3, 6, 1, 5, 5, 7, 3, 2]));
		assert!(oid_is(ExtendedKeyUsagePurpose::CodeSigning.oid(), &[1, 3, 6, 1, 5, 5, 7, 3, 3]));
		assert!(oid_is(ExtendedKeyUsagePurpose::EmailProtection.oid(), &[1, 3, 6, 1, 5, 5, 7, 3, 4]));
		assert!(oid_is(ExtendedKeyUsagePurpose::TimeStamping.oid(), &[1, 3, 6, 1, 5, 5, 7, 3, 8]));
		assert!(oid_is(ExtendedKeyUsagePurpose::OcspSigning.oid(), &[1, 3, 6, 1, 5, 5, 7, 3, 9]));
		assert!(oid_is(ExtendedKeyUsagePurpose::Other(x.to_vec()).oid(), &x));
	}

	fn oid_of(t: &DnType) -> Vec<u64> {
		t.to_oid().components().to_vec()
	}

	/// @ob dntype.oid_table @props C02,C03,C07,C08,C17,C20 @kind forall @tier quick @fns rcgen::DnType::to_oid,rcgen::DnType::from_oid
	#[kani::proof]
	#[kani::unwind(8)]
	fn dntype_oid_table() {
		// RFC 5280 appendix A.1 / X.520: id-at = 2.5.4; commonName 3, countryName 6, localityName 7,
		// stateOrProvinceName 8, organizationName 10, organizationalUnitName 11
		let x: [u64; 3] = kani::any();
		kani::cover!(true, "reachable");
		assert!(oid_is(&oid_of(&DnType::CommonName), &[2, 5, 4, 3]));
		assert!(oid_is(&oid_of(&DnType::CountryName), &[2, 5, 4, 6]));
		assert!(oid_is(&oid_of(&DnType::LocalityName), &[2, 5, 4, 7]));
		assert!(oid_is(&oid_of(&DnType::StateOrProvinceName), &[2, 5, 4, 8]));
		assert!(oid_is(&oid_of(&DnType::OrganizationName), &[2, 5, 4, 10]));
		assert!(oid_is(&oid_of(&DnType::OrganizationalUnitName), &[2, 5, 4, 11]));
		assert!(oid_is(&oid_of(&DnType::CustomDnType(x.to_vec())), &x));
		// from_oid is the inverse on the table and maps everything else to the custom variant
		assert!(DnType::from_oid(&[2, 5, 4, 3]) == DnType::CommonName);
		assert!(DnType::from_oid(&[2, 5, 4, 6]) == DnType::CountryName);
		assert!(DnType::from_oid(&[2, 5, 4, 7]) == DnType::LocalityName);
		assert!(DnType::from_oid(&[2, 5, 4, 8]) == DnType::StateOrProvinceName);
		assert!(DnType::from_oid(&[2, 5, 4, 10]) == DnType::OrganizationName);
		assert!(DnType::from_oid(&[2, 5, 4, 11]) == DnType::OrganizationalUnitName);
	}

	/// @ob dntype.from_oid_total @props C03,C06,C07,C10,C17,C20 @kind forall @tier quick @bound "every 4-arc OID" @fns rcgen::DnType::from_oid
	#[kani::proof]
	#[kani::unwind(8)]
	fn dntype_from_oid_roundtrip() {
		let x: [u64; 4] = kani::any();
		kani::cover!(true, "reachable");
		let t = DnType::from_oid(&x);
		// whatever the variant, the OID it encodes to is the one it was built from
		assert!(oid_is(&oid_of(&t), &x));
		let table = x[0] == 2 && x[1] == 5 && x[2] == 4 && (x[3] == 3 || x[3] == 6 || x[3] == 7 || x[3] == 8 || x[3] == 10 || x[3] == 11);
		assert!(matches!(t, DnType::CustomDnType(_)) == !table);
	}

	/// @ob nc.is_empty @props C02,C05 @kind forall @tier quick @bound "subtree lists of length 0..=1 on either side" @fns rcgen::NameConstraints::is_empty
	#[kani::proof]
	#[kani::unwind(4)]
	fn nc_is_empty() {
		kani::cover!(true, "reachable");
		let st = || GeneralSubtree::IpAddress(CidrSubnet::V4([0; 4], [0; 4]));
		assert!(NameConstraints { permitted_subtrees: vec![], excluded_subtrees: vec![] }.is_empty());
		// mem::forget: dropping a Vec<GeneralSubtree> drags the drop glue of every variant (hash map included) into the query
		let a = NameConstraints { permitted_subtrees: vec![st()], excluded_subtrees: vec![] };
		assert!(!a.is_empty());
		core::mem::forget(a);
		let b = NameConstraints { permitted_subtrees: vec![], excluded_subtrees: vec![st()] };
		assert!(!b.is_empty());
		core::mem::forget(b);
		let c = NameConstraints { permitted_subtrees: vec![st()], excluded_subtrees: vec![st()] };
		assert!(!c.is_empty());
		core::mem::forget(c);
	}

	/// @ob custom_ext.constructors @props C02,C04,C07 @kind forall @tier quick @bound "3-arc OID, 4 content bytes, 32-byte digest" @fns rcgen::CustomExtension::from_oid_content,rcgen::CustomExtension::new_acme_identifier,rcgen::CustomExtension::set_criticality
	#[kani::proof]
	#[kani::unwind(40)]
	fn custom_ext_constructors() {
		let oid: [u64; 3] = kani::any();
		let c: [u8; 4] = kani::any();
		let crit: bool = kani::any();
		let dig: [u8; 32] = kani::any();
		kani::cover!(true, "reachable");
		let mut e = CustomExtension::from_oid_content(&oid, c.to_vec());
		assert!(!e.criticality());
		e.set_criticality(crit);
		assert!(e.criticality() == crit);
		assert!(e.content().len() == 4 && e.content()[0] == c[0] && e.content()[3] == c[3]);
		let mut it = e.oid_components();
		assert!(it.next() == Some(oid[0]) && it.next() == Some(oid[1]) && it.next() == Some(oid[2]) && it.next().is_none());
		// RFC 8737 3: id-pe-acmeIdentifier 1.3.6.1.5.5.7.1.31, critical, value = OCTET STRING (SIZE (32))
		let a = CustomExtension::new_acme_identifier(&dig);
		assert!(a.criticality());
		assert!(oid_is(&a.oid, &[1, 3, 6, 1, 5, 5, 7, 1, 31]));
		assert!(a.content().len() == 34 && a.content()[0] == 0x04 && a.content()[1] == 32);
		let mut i = 0;
		while i < 32 { assert!(a.content()[2 + i] == dig[i]); i += 1; }
	}

	/// @ob eku.insert_idempotent @props C18 @kind forall @tier quick @fns rcgen::CertificateParams::insert_extended_key_usage
	#[kani::proof]
	#[kani::unwind(6)]
	#[kani::stub(std::hash::RandomState::new, fixed_random_state)]
	fn eku_insert_idempotent() {
		let mut p = bare_params();
		kani::cover!(true, "reachable");
		p.insert_extended_key_usage(ExtendedKeyUsagePurpose::ServerAuth);
		p.insert_extended_key_usage(ExtendedKeyUsagePurpose::ClientAuth);
		p.insert_extended_key_usage(ExtendedKeyUsagePurpose::ServerAuth);
		assert!(p.extended_key_usages.len() == 2);
		assert!(p.extended_key_usages[0] == ExtendedKeyUsagePurpose::ServerAuth);
		assert!(p.extended_key_usages[1] == ExtendedKeyUsagePurpose::ClientAuth);
	}

	// ------------------------------------------------------------------ key usage extension bytes
	// Modular check of write_key_usage: the callee yasna::DERWriter::write_bitvec_bytes is replaced by a
	// recorder that asserts the callee's precondition and records its arguments; the callee's own
	// contract (tag 03, length, unused-bit count, zeroed padding) is verified separately (yasna.bitvec.*).
	// A byte-level run through the real callee does not terminate: the length of the bit string
	// depends on the data, and symbolic buffer lengths exhaust CBMC's memory (measured: > 24 GB).
	static mut BV_CALLS: u8 = 0;
	static mut BV_NBYTES: usize = 0;
	static mut BV_NBITS: usize = 0;
	static mut BV_B: [u8; 2] = [0; 2];
	fn rec_bitvec<'a>(_w: DERWriter<'a>, bytes: &[u8], len: usize) where 'a: 'a {
		// precondition of yasna's write_bitvec_bytes (its debug assertions)
		assert!(len <= 8 * bytes.len(), "bit length exceeds the bytes passed");
		assert!(8 * bytes.len() < len + 8, "more bytes passed than the bit length needs");
		unsafe {
			BV_CALLS += 1;
			BV_NBYTES = bytes.len();
			BV_NBITS = len;
			if bytes.len() > 0 { BV_B[0] = bytes[0]; }
			if bytes.len() > 1 { BV_B[1] = bytes[1]; }
		}
	}

	/// @ob ku.extension_value @props C02,C04,C07 @kind forall @tier quick @timeout 900 @replay key_usage9
	/// @bound "a list of 9 symbolic usages (duplicates allowed): every one of the 511 non-empty usage sets; bit-string writer replaced by its contract" @fns rcgen::CertificateParams::write_key_usage
	#[kani::proof]
	#[kani::unwind(24)]
	#[kani::stub(std::hash::RandomState::new, fixed_random_state)]
	#[kani::stub(yasna::DERWriter::write_bitvec_bytes, rec_bitvec)]
	fn ku_extension_value() {
		let e: [u8; 9] = kani::any();
		let mut p = bare_params();
		let mut bits: u16 = 0;
		let mut v = Vec::with_capacity(9);
		let mut i = 0usize;
		while i < 9 { kani::assume(e[i] < 9); bits |= 0x8000u16 >> e[i]; v.push(ku_of(e[i])); i += 1; }
		p.key_usages = v;
		kani::cover!(true, "reachable");
		let der = yasna::construct_der(|w| p.write_key_usage(w));
		core::mem::forget(p);
		// RFC 5280 4.2.1.3: Extension{ id-ce 15, critical TRUE, OCTET STRING{ <KeyUsage BIT STRING> } } (bit string recorded, not written)
		let exp = [0x30, 10, 0x06, 3, 0x55, 0x1d, 0x0f, 0x01, 1, 0xff, 0x04, 0];
		assert!(der.len() == exp.len());
		let mut i = 0;
		while i < exp.len() { assert!(der[i] == exp[i]); i += 1; }
		// X.690 11.2.2: a named bit list ends with its last set bit; bit k (from the MSB) set iff usage k requested
		let nbits = 16 - bits.trailing_zeros() as usize;
		unsafe {
			assert!(BV_CALLS == 1);
			assert!(BV_NBITS == nbits, "named bit list without trailing zero bits");
			assert!(BV_NBYTES == (nbits + 7) / 8);
			assert!(BV_B[0] == (bits >> 8) as u8);
			if BV_NBYTES == 2 { assert!(BV_B[1] == (bits & 0xff) as u8); }
		}
	}

	/// @ob yasna.bitvec.one_octet @props C04 @kind forall @tier quick @bound "1 content byte, every bit length 1..=8, symbolic content" @fns yasna::DERWriter::write_bitvec_bytes
	#[kani::proof]
	#[kani::unwind(8)]
	fn yasna_bitvec_one_octet() {
		let b: u8 = kani::any();
		let n: usize = kani::any();
		kani::assume(n >= 1 && n <= 8);
		kani::cover!(true, "reachable");
		let der = yasna::construct_der(|w| w.write_bitvec_bytes(&[b], n));
		let unused = (8 - n) as u8;
		assert!(der.len() == 4 && der[0] == 0x03 && der[1] == 2 && der[2] == unused);
		assert!(der[3] == b & (0xffu16 << unused) as u8, "padding bits are zero");
	}

	/// @ob yasna.bitvec.two_octets @props C04 @kind forall @tier quick @bound "2 content bytes, every bit length 9..=16, symbolic content" @fns yasna::DERWriter::write_bitvec_bytes
	#[kani::proof]
	#[kani::unwind(8)]
	fn yasna_bitvec_two_octets() {
		let b: [u8; 2] = kani::any();
		let n: usize = kani::any();
		kani::assume(n >= 9 && n <= 16);
		kani::cover!(true, "reachable");
		let der = yasna::construct_der(|w| w.write_bitvec_bytes(&b, n));
		let unused = (16 - n) as u8;
		assert!(der.len() == 5 && der[0] == 0x03 && der[1] == 3 && der[2] == unused && der[3] == b[0]);
		assert!(der[4] == b[1] & (0xffu16 << unused) as u8, "padding bits are zero");
	}

	/// @ob ku.empty_omitted @props C02,C05,C07 @kind forall @tier quick @fns rcgen::CertificateParams::write_key_usage
	#[kani::proof]
	#[kani::unwind(4)]
	#[kani::stub(std::hash::RandomState::new, fixed_random_state)]
	fn ku_empty_omitted() {
		let p = bare_params();
		kani::cover!(true, "reachable");
		// an empty usage list writes nothing at all: the enclosing SEQUENCE stays empty
		let der = yasna::construct_der(|w| w.write_sequence(|w| p.write_key_usage(w.next())));
		assert!(der.len() == 2 && der[0] == 0x30 && der[1] == 0);
	}

	// ------------------------------------------------------------------ CSR refusal rule (C07)
	static mut SIGN_REACHED: bool = false;
	struct Rk { pk: [u8; 4] }
	impl RemoteKeyPair for Rk {
		fn public_key(&self) -> &[u8] { &self.pk }
		fn sign(&self, _msg: &[u8]) -> Result<Vec<u8>, Error> { unsafe { SIGN_REACHED = true; } Ok(vec![0xAA, 0xBB]) }
		fn algorithm(&self) -> &'static SignatureAlgorithm { &PKCS_ED25519 }
	}
	fn kp() -> KeyPair {
		match KeyPair::from_remote(Box::new(Rk { pk: [1, 2, 3, 4] })) { Ok(k) => k, Err(_) => { kani::assume(false); unreachable!() } }
	}
	fn refusal_check(p: CertificateParams, must_refuse: bool) {
		let k = kp();
		kani::cover!(true, "reachable");
		let r = p.serialize_request(&k);
		let reached = unsafe { SIGN_REACHED };
		if must_refuse {
			assert!(matches!(r, Err(Error::UnsupportedInCsr)), "a field a CSR cannot express must give UnsupportedInCsr");
			assert!(!reached, "nothing is signed when the request is refused");
		} else {
			assert!(r.is_ok());
			assert!(reached);
		}
	}

	/// @ob csr.refusal.none @props C07 @kind forall @tier quick @timeout 900 @replay csr_none @bound "no unsupported field set; other fields empty" @fns rcgen::CertificateParams::serialize_request_with_attributes
	#[kani::proof]
	#[kani::unwind(12)]
	#[kani::stub(std::hash::RandomState::new, fixed_random_state)]
	fn csr_refusal_none() { refusal_check(bare_params(), false); }

	/// @ob csr.refusal.serial @props C07 @kind forall @tier quick @timeout 900 @replay csr_serial @mem 24 @bound "serial number of 2 symbolic bytes set, alone" @fns rcgen::CertificateParams::serialize_request_with_attributes
	#[kani::proof]
	#[kani::unwind(12)]
	#[kani::stub(std::hash::RandomState::new, fixed_random_state)]
	fn csr_refusal_serial() {
		let mut p = bare_params();
		let b: [u8; 2] = kani::any();
		p.serial_number = Some(SerialNumber::from_slice(&b));
		refusal_check(p, true);
	}

	/// @ob csr.refusal.is_ca @props C07 @kind forall @tier quick @timeout 900 @replay csr_is_ca @mem 24 @bound "CA flag: ExplicitNoCa / Ca(Unconstrained) / Ca(Constrained(n)) for all n, alone" @fns rcgen::CertificateParams::serialize_request_with_attributes
	#[kani::proof]
	#[kani::unwind(12)]
	#[kani::stub(std::hash::RandomState::new, fixed_random_state)]
	fn csr_refusal_is_ca() {
		let mut p = bare_params();
		let k: u8 = kani::any();
		let n: u8 = kani::any();
		p.is_ca = match k % 3 { 0 => IsCa::ExplicitNoCa, 1 => IsCa::Ca(BasicConstraints::Unconstrained), _ => IsCa::Ca(BasicConstraints::Constrained(n)) };
		refusal_check(p, true);
	}

	/// @ob csr.refusal.name_constraints @props C07 @kind forall @tier quick @timeout 900 @replay csr_nc @bound "name constraints present (both lists empty), alone" @fns rcgen::CertificateParams::serialize_request_with_attributes
	#[kani::proof]
	#[kani::unwind(12)]
	#[kani::stub(std::hash::RandomState::new, fixed_random_state)]
	fn csr_refusal_nc() {
		let mut p = bare_params();
		p.name_constraints = Some(NameConstraints { permitted_subtrees: vec![], excluded_subtrees: vec![] });
		refusal_check(p, true);
	}

	/// @ob csr.refusal.crl_dp @props C07 @kind forall @tier quick @timeout 900 @replay csr_crldp @bound "one CRL distribution point without URIs, alone" @fns rcgen::CertificateParams::serialize_request_with_attributes
	#[kani::proof]
	#[kani::unwind(12)]
	#[kani::stub(std::hash::RandomState::new, fixed_random_state)]
	fn csr_refusal_crldp() {
		let mut p = bare_params();
		p.crl_distribution_points = vec![CrlDistributionPoint { uris: vec![] }];
		refusal_check(p, true);
	}

	/// @ob csr.refusal.aki @props C07 @kind forall @tier quick @timeout 900 @replay csr_aki @bound "authority key identifier flag set, alone" @fns rcgen::CertificateParams::serialize_request_with_attributes
	#[kani::proof]
	#[kani::unwind(12)]
	#[kani::stub(std::hash::RandomState::new, fixed_random_state)]
	fn csr_refusal_aki() {
		let mut p = bare_params();
		p.use_authority_key_identifier_extension = true;
		refusal_check(p, true);
	}

	// ------------------------------------------------------------------ import kernel: subnet split (C17)
	/// @ob subnet.split_inverts_to_bytes @props C17,C10 @kind forall @tier quick @timeout 900 @features "x509-parser" @bound "IPv4 subtree of 8 symbolic bytes; lengths 7 and 9 skipped" @fns rcgen::CertificateParams::convert_x509_general_subtrees,rcgen::CidrSubnet::to_bytes
	#[cfg(feature = "x509-parser")]
	#[kani::proof]
	#[kani::unwind(34)]
	fn subnet_split_inverts_to_bytes() {
		use x509_parser::extensions::{GeneralName, GeneralSubtree as XSubtree};
		let b: [u8; 9] = kani::any();
		kani::cover!(true, "reachable");
		let trees = [XSubtree { base: GeneralName::IPAddress(&b[..8]) }];
		match CertificateParams::convert_x509_general_subtrees(&trees) {
			Ok(v) => {
				assert!(v.len() == 1);
				match &v[0] {
					GeneralSubtree::IpAddress(CidrSubnet::V4(a, m)) => {
						assert!(*a == [b[0], b[1], b[2], b[3]] && *m == [b[4], b[5], b[6], b[7]]);
						let back = CidrSubnet::V4(*a, *m).to_bytes();
						let mut i = 0;
						while i < 8 { assert!(back[i] == b[i]); i += 1; }
					},
					_ => assert!(false, "8 octets are an IPv4 subnet"),
				}
				core::mem::forget(v);
			},
			Err(_) => assert!(false),
		}
		let odd = [XSubtree { base: GeneralName::IPAddress(&b[..7]) }, XSubtree { base: GeneralName::IPAddress(&b[..9]) }];
		match CertificateParams::convert_x509_general_subtrees(&odd) {
			Ok(v) => { assert!(v.is_empty(), "other lengths are not recoverable and are skipped"); },
			Err(_) => assert!(false),
		}
	}

	// ------------------------------------------------------------------ generation returns its parameters (C15)
	fn stub_ser<K: PublicKeyData>(_s: &CertificateParams, _pub_key: &K, _issuer: Issuer<'_>) -> Result<CertificateDer<'static>, Error> {
		Ok(Vec::new().into())
	}

	/// @ob cert.params_returned @props C15,C02 @kind forall @tier quick @timeout 900 @bound "fixed shape: 2-byte symbolic serial, symbolic flags / CA kind / path length, 2 symbolic key usages; serializer replaced by a stub" @fns rcgen::CertificateParams::self_signed,rcgen::Certificate::params,rcgen::Certificate::key_identifier
	#[kani::proof]
	#[kani::unwind(12)]
	#[kani::stub(std::hash::RandomState::new, fixed_random_state)]
	#[kani::stub(CertificateParams::serialize_der_with_signer, stub_ser)]
	fn cert_params_returned() {
		let k = kp();
		let mut p = bare_params();
		let sn: [u8; 2] = kani::any();
		let aki: bool = kani::any();
		let n: u8 = kani::any();
		let e: [u8; 2] = kani::any();
		kani::assume(e[0] < 9 && e[1] < 9);
		let id: [u8; 3] = kani::any();
		p.serial_number = Some(SerialNumber::from_slice(&sn));
		p.use_authority_key_identifier_extension = aki;
		p.is_ca = IsCa::Ca(BasicConstraints::Constrained(n));
		p.key_usages = vec![ku_of(e[0]), ku_of(e[1])];
		p.key_identifier_method = KeyIdMethod::PreSpecified(id.to_vec());
		kani::cover!(true, "reachable");
		match p.self_signed(&k) {
			Ok(c) => {
				let q = c.params();
				assert!(q.serial_number == Some(SerialNumber::from_slice(&sn)));
				assert!(q.use_authority_key_identifier_extension == aki);
				assert!(q.is_ca == IsCa::Ca(BasicConstraints::Constrained(n)));
				assert!(q.key_usages.len() == 2 && q.key_usages[0] == ku_of(e[0]) && q.key_usages[1] == ku_of(e[1]));
				assert!(q.subject_alt_names.is_empty() && q.extended_key_usages.is_empty() && q.custom_extensions.is_empty());
				assert!(q.name_constraints.is_none() && q.crl_distribution_points.is_empty());
				let ki = c.key_identifier();
				assert!(ki.len() == 3 && ki[0] == id[0] && ki[1] == id[1] && ki[2] == id[2], "reported key identifier = configured derivation");
				core::mem::forget(c);
			},
			Err(_) => assert!(false),
		}
	}

	/// @ob subnet.split_inverts_to_bytes.v6 @props C17,C10 @kind forall @tier quick @timeout 900 @features "x509-parser" @bound "IPv6 subtree of 32 symbolic bytes; lengths 31 and 33 skipped" @fns rcgen::CertificateParams::convert_x509_general_subtrees,rcgen::CidrSubnet::to_bytes
	#[cfg(feature = "x509-parser")]
	#[kani::proof]
	#[kani::unwind(40)]
	fn subnet_split_inverts_to_bytes_v6() {
		use x509_parser::extensions::{GeneralName, GeneralSubtree as XSubtree};
		let b: [u8; 33] = kani::any();
		kani::cover!(true, "reachable");
		let trees = [XSubtree { base: GeneralName::IPAddress(&b[..32]) }];
		match CertificateParams::convert_x509_general_subtrees(&trees) {
			Ok(v) => {
				assert!(v.len() == 1);
				match &v[0] {
					GeneralSubtree::IpAddress(CidrSubnet::V6(a, m)) => {
						let mut i = 0;
						while i < 16 { assert!(a[i] == b[i] && m[i] == b[16 + i], "address first, mask second"); i += 1; }
					},
					_ => assert!(false, "32 octets are an IPv6 subnet"),
				}
				core::mem::forget(v);
			},
			Err(_) => assert!(false),
		}
		let odd = [XSubtree { base: GeneralName::IPAddress(&b[..31]) }, XSubtree { base: GeneralName::IPAddress(&b[..33]) }];
		match CertificateParams::convert_x509_general_subtrees(&odd) {
			Ok(v) => { assert!(v.is_empty(), "other lengths are not recoverable and are skipped"); },
			Err(_) => assert!(false),
		}
	}

	// Byte-level run of write_subject_alt_names (one IPv4 entry of 4 symbolic bytes, params forgotten to avoid drop
	// glue) was tried again during the build: no answer in 1200 s (rule K3 stands: walking a Vec of payload-carrying
	// enums is not tractable for CBMC). The SAN / subtree / distribution-point writers are decided by engine S only.

	/// @ob csr.refusal.two_fields @props C07 @kind bounded @tier thorough @timeout 1200 @bound "serial number and authority key identifier flag both set" @fns rcgen::CertificateParams::serialize_request_with_attributes
	#[kani::proof]
	#[kani::unwind(12)]
	#[kani::stub(std::hash::RandomState::new, fixed_random_state)]
	fn csr_refusal_two_fields() {
		let mut p = bare_params();
		let b: [u8; 2] = kani::any();
		p.serial_number = Some(SerialNumber::from_slice(&b));
		p.use_authority_key_identifier_extension = true;
		refusal_check(p, true);
	}
