	// ===== engine K harnesses for rcgen/src/crl.rs =====
	use crate::verif_lib::{any_dt, bare_params, fixed_random_state, ku_of};
	use crate::{CertificateParams, DistinguishedName, IsCa, RemoteKeyPair, SignatureAlgorithm, PKCS_ED25519};
	use time::OffsetDateTime;
	use yasna::DERWriter;

	struct Rk { pk: [u8; 4] }
	impl RemoteKeyPair for Rk {
		fn public_key(&self) -> &[u8] { &self.pk }
		fn sign(&self, _msg: &[u8]) -> Result<Vec<u8>, Error> { Ok(vec![0xAA, 0xBB]) }
		fn algorithm(&self) -> &'static SignatureAlgorithm { &PKCS_ED25519 }
	}
	static mut REACHED: bool = false;
	fn stub_serialize(_s: &CertificateRevocationListParams, _issuer: Issuer) -> Result<Vec<u8>, Error> {
		unsafe { REACHED = true; }
		Ok(Vec::new())
	}
	fn issuer_with(usages: Vec<KeyUsagePurpose>) -> Certificate {
		let mut p = bare_params();
		p.key_usages = usages;
		Certificate { params: p, subject_public_key_info: Vec::new(), der: Vec::new().into() }
	}
	fn kp() -> KeyPair {
		match KeyPair::from_remote(Box::new(Rk { pk: [1, 2, 3, 4] })) { Ok(k) => k, Err(_) => { kani::assume(false); unreachable!() } }
	}

	/// @ob crl.guard.order @props C08 @kind forall @tier quick @timeout 1500 @mem 12 @replay crl_order
	/// @bound "thisUpdate and nextUpdate: every OffsetDateTime of the time crate; issuer without key usages; serializer replaced by a recorder" @fns rcgen::CertificateRevocationListParams::signed_by
	#[kani::proof]
	#[kani::unwind(8)]
	#[kani::stub(std::hash::RandomState::new, fixed_random_state)]
	#[kani::stub(CertificateRevocationListParams::serialize_der, stub_serialize)]
	fn crl_guard_order() {
		let k = kp();
		let issuer = issuer_with(Vec::new());
		let this_update = any_dt();
		let next_update = any_dt();
		kani::cover!(true, "reachable");
		let p = CertificateRevocationListParams {
			this_update, next_update,
			crl_number: SerialNumber::from_slice(&[1]),
			issuing_distribution_point: None,
			revoked_certs: Vec::new(),
			key_identifier_method: KeyIdMethod::PreSpecified(Vec::new()),
		};
		let r = p.signed_by(&issuer, &k);
		let reached = unsafe { REACHED };
		// encoded instants are whole seconds in UTC: compare what will be written
		let later = next_update.unix_timestamp() > this_update.unix_timestamp();
		assert!(reached == later, "a CRL is serialised exactly when the encoded nextUpdate is later than the encoded thisUpdate");
		if !later { assert!(matches!(r, Err(Error::InvalidCrlNextUpdate))); }
		core::mem::forget(r);
	}

	/// @ob crl.guard.crlsign @props C08 @kind forall @tier quick @timeout 1500 @mem 12 @replay crl_ku
	/// @bound "issuer key usages: a list of 3 symbolic usages (every set of up to 3 usages) and the empty list" @fns rcgen::CertificateRevocationListParams::signed_by
	#[kani::proof]
	#[kani::unwind(8)]
	#[kani::stub(std::hash::RandomState::new, fixed_random_state)]
	#[kani::stub(CertificateRevocationListParams::serialize_der, stub_serialize)]
	fn crl_guard_crlsign() {
		let k = kp();
		let e: [u8; 3] = kani::any();
		kani::assume(e[0] < 9 && e[1] < 9 && e[2] < 9);
		let issuer = issuer_with(vec![ku_of(e[0]), ku_of(e[1]), ku_of(e[2])]);
		kani::cover!(true, "reachable");
		let p = CertificateRevocationListParams {
			this_update: OffsetDateTime::UNIX_EPOCH,
			next_update: OffsetDateTime::UNIX_EPOCH + time::Duration::seconds(5),
			crl_number: SerialNumber::from_slice(&[1]),
			issuing_distribution_point: None,
			revoked_certs: Vec::new(),
			key_identifier_method: KeyIdMethod::PreSpecified(Vec::new()),
		};
		let r = p.signed_by(&issuer, &k);
		let reached = unsafe { REACHED };
		let has = e[0] == 6 || e[1] == 6 || e[2] == 6; // RFC 5280 4.2.1.3: cRLSign is bit 6
		assert!(reached == has, "issuer usages lacking cRLSign: refused; containing it: serialised");
		if !has { assert!(matches!(r, Err(Error::IssuerNotCrlSigner))); }
		core::mem::forget(r);
		core::mem::forget(issuer);
	}

	/// @ob crl.reason.codes @props C08 @kind forall @tier quick @bound "finite: the ten reason codes" @fns rcgen::RevocationReason
	#[kani::proof]
	fn crl_reason_codes() {
		kani::cover!(true, "reachable");
		// RFC 5280 5.3.1 CRLReason
		assert!(RevocationReason::Unspecified as i64 == 0);
		assert!(RevocationReason::KeyCompromise as i64 == 1);
		assert!(RevocationReason::CaCompromise as i64 == 2);
		assert!(RevocationReason::AffiliationChanged as i64 == 3);
		assert!(RevocationReason::Superseded as i64 == 4);
		assert!(RevocationReason::CessationOfOperation as i64 == 5);
		assert!(RevocationReason::CertificateHold as i64 == 6);
		assert!(RevocationReason::RemoveFromCrl as i64 == 8);
		assert!(RevocationReason::PrivilegeWithdrawn as i64 == 9);
		assert!(RevocationReason::AaCompromise as i64 == 10);
	}

	fn simple_is_ascii(s: &str) -> bool {
		let b = s.as_bytes();
		let mut i = 0;
		while i < b.len() { if b[i] >= 0x80 { return false; } i += 1; }
		true
	}
	fn idp_bytes(scope: Option<CrlScope>, uri: Option<&str>) -> Vec<u8> {
		let uris = match uri { Some(u) => vec![u.to_string()], None => Vec::new() };
		let idp = CrlIssuingDistributionPoint { distribution_point: CrlDistributionPoint { uris }, scope };
		let der = yasna::construct_der(|w| idp.write_der(w));
		core::mem::forget(idp);
		der
	}
	fn same(a: &[u8], b: &[u8]) -> bool {
		if a.len() != b.len() { return false; }
		let mut i = 0;
		while i < a.len() { if a[i] != b[i] { return false; } i += 1; }
		true
	}
	/// @ob crl.idp.scope_bytes @props C04,C05,C08 @kind forall @tier quick @timeout 900 @bound "scope none / user certificates / CA certificates, without URI and with the one-character URI \"u\"" @fns rcgen::CrlIssuingDistributionPoint::write_der,rcgen::crl::write_distribution_point_name_uris
	#[kani::proof]
	#[kani::unwind(16)]
	#[kani::stub(str::is_ascii, simple_is_ascii)]
	fn crl_idp_scope_bytes() {
		kani::cover!(true, "reachable");
		// RFC 5280 5.2.5: IssuingDistributionPoint ::= SEQUENCE { distributionPoint [0] DistributionPointName OPTIONAL,
		//   onlyContainsUserCerts [1] BOOLEAN DEFAULT FALSE, onlyContainsCACerts [2] BOOLEAN DEFAULT FALSE, ... }
		// DistributionPointName ::= CHOICE { fullName [0] GeneralNames, ... }  (tag [0] on a CHOICE is explicit);
		// GeneralName uniformResourceIdentifier [6] IMPLICIT IA5String
		assert!(same(&idp_bytes(None, None), &[0x30, 4, 0xa0, 2, 0xa0, 0]));
		assert!(same(&idp_bytes(Some(CrlScope::UserCertsOnly), None), &[0x30, 7, 0xa0, 2, 0xa0, 0, 0x81, 1, 0xff]));
		assert!(same(&idp_bytes(Some(CrlScope::CaCertsOnly), None), &[0x30, 7, 0xa0, 2, 0xa0, 0, 0x82, 1, 0xff]));
		assert!(same(&idp_bytes(None, Some("u")), &[0x30, 7, 0xa0, 5, 0xa0, 3, 0x86, 1, b'u']));
		assert!(same(&idp_bytes(Some(CrlScope::UserCertsOnly), Some("u")), &[0x30, 10, 0xa0, 5, 0xa0, 3, 0x86, 1, b'u', 0x81, 1, 0xff]));
		assert!(same(&idp_bytes(Some(CrlScope::CaCertsOnly), Some("u")), &[0x30, 10, 0xa0, 5, 0xa0, 3, 0x86, 1, b'u', 0x82, 1, 0xff]));
	}

	/// @ob crl.params_returned @props C15,C08 @kind forall @tier quick @timeout 900 @bound "fixed shape (no entries), 2-byte symbolic CRL number, serializer replaced by a recorder" @fns rcgen::CertificateRevocationListParams::signed_by,rcgen::CertificateRevocationList::params
	#[kani::proof]
	#[kani::unwind(8)]
	#[kani::stub(std::hash::RandomState::new, fixed_random_state)]
	#[kani::stub(CertificateRevocationListParams::serialize_der, stub_serialize)]
	fn crl_params_returned() {
		let k = kp();
		let issuer = issuer_with(Vec::new());
		let n: [u8; 2] = kani::any();
		let secs: i64 = kani::any();
		kani::assume(secs > 0 && secs < 1_000_000);
		kani::cover!(true, "reachable");
		let p = CertificateRevocationListParams {
			this_update: OffsetDateTime::UNIX_EPOCH,
			next_update: OffsetDateTime::UNIX_EPOCH + time::Duration::seconds(secs),
			crl_number: SerialNumber::from_slice(&n),
			issuing_distribution_point: None,
			revoked_certs: Vec::new(),
			key_identifier_method: KeyIdMethod::PreSpecified(Vec::new()),
		};
		match p.signed_by(&issuer, &k) {
			Ok(crl) => {
				let q = crl.params();
				assert!(q.this_update == OffsetDateTime::UNIX_EPOCH);
				assert!(q.next_update == OffsetDateTime::UNIX_EPOCH + time::Duration::seconds(secs));
				assert!(q.crl_number == SerialNumber::from_slice(&n));
				assert!(q.issuing_distribution_point.is_none() && q.revoked_certs.is_empty());
				assert!(q.key_identifier_method == KeyIdMethod::PreSpecified(Vec::new()));
				core::mem::forget(crl);
			},
			Err(_) => assert!(false),
		}
	}

	// A byte-level run of RevokedCertParams::write_der (serial 05, symbolic reason code, time writer replaced by a recorder)
	// was tried during the build: no answer in 1200 s. The entry writer is decided by engine S (shape, guards, GeneralizedTime)
	// plus crl.reason.codes.

	/// @ob crl.guard.crlsign.four_usages @props C08 @kind bounded @tier thorough @timeout 1800 @mem 16
	/// @bound "issuer key usages: a list of 4 symbolic usages" @fns rcgen::CertificateRevocationListParams::signed_by
	#[kani::proof]
	#[kani::unwind(8)]
	#[kani::stub(std::hash::RandomState::new, fixed_random_state)]
	#[kani::stub(CertificateRevocationListParams::serialize_der, stub_serialize)]
	fn crl_guard_crlsign_four() {
		let k = kp();
		let e: [u8; 4] = kani::any();
		kani::assume(e[0] < 9 && e[1] < 9 && e[2] < 9 && e[3] < 9);
		let issuer = issuer_with(vec![ku_of(e[0]), ku_of(e[1]), ku_of(e[2]), ku_of(e[3])]);
		kani::cover!(true, "reachable");
		let p = CertificateRevocationListParams {
			this_update: OffsetDateTime::UNIX_EPOCH,
			next_update: OffsetDateTime::UNIX_EPOCH + time::Duration::seconds(5),
			crl_number: SerialNumber::from_slice(&[1]),
			issuing_distribution_point: None,
			revoked_certs: Vec::new(),
			key_identifier_method: KeyIdMethod::PreSpecified(Vec::new()),
		};
		let r = p.signed_by(&issuer, &k);
		let reached = unsafe { REACHED };
		let has = e[0] == 6 || e[1] == 6 || e[2] == 6 || e[3] == 6;
		assert!(reached == has);
		if !has { assert!(matches!(r, Err(Error::IssuerNotCrlSigner))); }
		core::mem::forget(r);
		core::mem::forget(issuer);
	}
