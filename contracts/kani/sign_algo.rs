	// ===== engine K harnesses for rcgen/src/sign_algo.rs =====
	use crate::sign_algo::algo::*;
	use crate::SignatureAlgorithm;
	use std::hash::{Hash, Hasher};

	fn same(got: &[u8], want: &[u8]) -> bool {
		if got.len() != want.len() { return false; }
		let mut i = 0;
		while i < want.len() { if got[i] != want[i] { return false; } i += 1; }
		true
	}
	fn sig_id(a: &SignatureAlgorithm) -> Vec<u8> { yasna::construct_der(|w| a.write_alg_ident(w)) }
	fn spki_id(a: &SignatureAlgorithm) -> Vec<u8> { yasna::construct_der(|w| a.write_oids_sign_alg(w)) }

	// RFC 4055 5: sha{256,384,512}WithRSAEncryption = 1.2.840.113549.1.1.{11,12,13}, parameters MUST be NULL
	const RSA256: [u8; 15] = [0x30, 0x0d, 0x06, 0x09, 0x2a, 0x86, 0x48, 0x86, 0xf7, 0x0d, 0x01, 0x01, 0x0b, 0x05, 0x00];
	const RSA384: [u8; 15] = [0x30, 0x0d, 0x06, 0x09, 0x2a, 0x86, 0x48, 0x86, 0xf7, 0x0d, 0x01, 0x01, 0x0c, 0x05, 0x00];
	const RSA512: [u8; 15] = [0x30, 0x0d, 0x06, 0x09, 0x2a, 0x86, 0x48, 0x86, 0xf7, 0x0d, 0x01, 0x01, 0x0d, 0x05, 0x00];
	// RFC 5758 3.2: ecdsa-with-SHA256/384 = 1.2.840.10045.4.3.{2,3}, parameters MUST be absent
	const EC256: [u8; 12] = [0x30, 0x0a, 0x06, 0x08, 0x2a, 0x86, 0x48, 0xce, 0x3d, 0x04, 0x03, 0x02];
	const EC384: [u8; 12] = [0x30, 0x0a, 0x06, 0x08, 0x2a, 0x86, 0x48, 0xce, 0x3d, 0x04, 0x03, 0x03];
	// RFC 8410 3: id-Ed25519 = 1.3.101.112, parameters MUST be absent
	const ED: [u8; 7] = [0x30, 0x05, 0x06, 0x03, 0x2b, 0x65, 0x70];
	// RFC 3279 2.3.1 / RFC 4055 1.2: rsaEncryption = 1.2.840.113549.1.1.1 with NULL
	const SPKI_RSA: [u8; 15] = [0x30, 0x0d, 0x06, 0x09, 0x2a, 0x86, 0x48, 0x86, 0xf7, 0x0d, 0x01, 0x01, 0x01, 0x05, 0x00];
	// RFC 5480 2.1.1: id-ecPublicKey 1.2.840.10045.2.1 with namedCurve secp256r1 1.2.840.10045.3.1.7 / secp384r1 1.3.132.0.34
	const SPKI_P256: [u8; 21] = [0x30, 0x13, 0x06, 0x07, 0x2a, 0x86, 0x48, 0xce, 0x3d, 0x02, 0x01, 0x06, 0x08, 0x2a, 0x86, 0x48, 0xce, 0x3d, 0x03, 0x01, 0x07];
	const SPKI_P384: [u8; 18] = [0x30, 0x10, 0x06, 0x07, 0x2a, 0x86, 0x48, 0xce, 0x3d, 0x02, 0x01, 0x06, 0x05, 0x2b, 0x81, 0x04, 0x00, 0x22];

	/// @ob algid.table.rsa @props C01,C11 @kind forall @tier quick @timeout 900 @bound "finite table: the three RSA PKCS#1 algorithms" @fns rcgen::SignatureAlgorithm::write_alg_ident,rcgen::SignatureAlgorithm::write_oids_sign_alg,rcgen::SignatureAlgorithm::write_params
	#[kani::proof]
	#[kani::unwind(24)]
	fn algid_table_rsa() {
		kani::cover!(true, "reachable");
		assert!(same(&sig_id(&PKCS_RSA_SHA256), &RSA256));
		assert!(same(&sig_id(&PKCS_RSA_SHA384), &RSA384));
		assert!(same(&sig_id(&PKCS_RSA_SHA512), &RSA512));
		assert!(same(&spki_id(&PKCS_RSA_SHA256), &SPKI_RSA));
		assert!(same(&spki_id(&PKCS_RSA_SHA384), &SPKI_RSA));
		assert!(same(&spki_id(&PKCS_RSA_SHA512), &SPKI_RSA));
	}

	/// @ob algid.table.ec_ed @props C01,C11 @kind forall @tier quick @timeout 900 @bound "finite table: ECDSA P-256/P-384 and Ed25519 (P-521 exists only in the aws-lc-rs build)" @fns rcgen::SignatureAlgorithm::write_alg_ident,rcgen::SignatureAlgorithm::write_oids_sign_alg,rcgen::SignatureAlgorithm::write_params
	#[kani::proof]
	#[kani::unwind(24)]
	fn algid_table_ec_ed() {
		kani::cover!(true, "reachable");
		assert!(same(&sig_id(&PKCS_ECDSA_P256_SHA256), &EC256));
		assert!(same(&sig_id(&PKCS_ECDSA_P384_SHA384), &EC384));
		assert!(same(&sig_id(&PKCS_ED25519), &ED));
		assert!(same(&spki_id(&PKCS_ECDSA_P256_SHA256), &SPKI_P256));
		assert!(same(&spki_id(&PKCS_ECDSA_P384_SHA384), &SPKI_P384));
		assert!(same(&spki_id(&PKCS_ED25519), &ED));
	}

	fn table(i: usize) -> &'static SignatureAlgorithm {
		match i { 0 => &PKCS_RSA_SHA256, 1 => &PKCS_RSA_SHA384, 2 => &PKCS_RSA_SHA512, 3 => &PKCS_ECDSA_P256_SHA256, 4 => &PKCS_ECDSA_P384_SHA384, _ => &PKCS_ED25519 }
	}
	struct Mix(u64);
	impl std::hash::Hasher for Mix {
		fn finish(&self) -> u64 { self.0 }
		fn write(&mut self, bytes: &[u8]) { let mut i = 0; while i < bytes.len() { self.0 = self.0.wrapping_mul(31).wrapping_add(bytes[i] as u64); i += 1; } }
	}

	/// @ob alg.eq_hash_lookup @props C11 @kind forall @tier quick @timeout 900 @bound "all 36 pairs of the 6 algorithms of the table (enumerated)" @fns rcgen::SignatureAlgorithm::eq,rcgen::SignatureAlgorithm::hash,rcgen::SignatureAlgorithm::from_oid,rcgen::SignatureAlgorithm::iter
	#[kani::proof]
	#[kani::unwind(80)]
	fn alg_eq_hash_lookup() {
		kani::cover!(true, "reachable");
		let mut i = 0usize;
		while i < 6 {
			let a = table(i);
			let mut j = 0usize;
			while j < 6 {
				let b = table(j);
				assert!((a == b) == (i == j), "two algorithms are equal exactly when they are the same table entry");
				if a == b {
					let mut ha = Mix(7);
					let mut hb = Mix(7);
					a.hash(&mut ha);
					b.hash(&mut hb);
					assert!(ha.0 == hb.0, "equal algorithms hash equally");
				}
				j += 1;
			}
			match SignatureAlgorithm::from_oid(a.oid_components) {
				Ok(f) => assert!(f == a, "lookup by OID returns the algorithm that carries the OID"),
				Err(_) => assert!(false, "every table entry is found by its OID"),
			}
			i += 1;
		}
		let mut n = 0usize;
		for _x in SignatureAlgorithm::iter() { n += 1; }
		assert!(n == 6);
	}

	/// @ob alg.unknown_oid @props C10,C11 @kind forall @tier quick @timeout 900 @bound "every 7-arc OID (the length of the RSA and ECDSA identifiers) and every 4-arc OID" @fns rcgen::SignatureAlgorithm::from_oid
	#[kani::proof]
	#[kani::unwind(60)]
	fn alg_unknown_oid() {
		let o7: [u64; 7] = kani::any();
		let o4: [u64; 4] = kani::any();
		kani::cover!(true, "reachable");
		let known7 = o7[0] == 1 && o7[1] == 2 && o7[2] == 840
			&& ((o7[3] == 113549 && o7[4] == 1 && o7[5] == 1 && (o7[6] == 11 || o7[6] == 12 || o7[6] == 13))
				|| (o7[3] == 10045 && o7[4] == 4 && o7[5] == 3 && (o7[6] == 2 || o7[6] == 3)));
		assert!(SignatureAlgorithm::from_oid(&o7).is_ok() == known7);
		let known4 = o4[0] == 1 && o4[1] == 3 && o4[2] == 101 && o4[3] == 112;
		assert!(SignatureAlgorithm::from_oid(&o4).is_ok() == known4);
	}
