	// ===== engine K harnesses for rcgen/src/key_pair.rs =====
	use crate::{Error, KeyPair, RemoteKeyPair, SignatureAlgorithm, SubjectPublicKeyInfo, PKCS_ED25519, PKCS_ECDSA_P256_SHA256, PKCS_RSA_SHA256};

	// ghost state: what the signer was asked to sign
	static mut SEEN: [u8; 8] = [0; 8];
	static mut SEEN_LEN: usize = 0;
	static mut SIGN_CALLS: u8 = 0;
	static mut SIG: [u8; 4] = [0; 4];
	static mut FAIL: bool = false;

	struct Rk { pk: [u8; 4], alg: &'static SignatureAlgorithm }
	impl RemoteKeyPair for Rk {
		fn public_key(&self) -> &[u8] { &self.pk }
		fn sign(&self, msg: &[u8]) -> Result<Vec<u8>, Error> {
			unsafe {
				SIGN_CALLS += 1;
				SEEN_LEN = msg.len();
				let mut i = 0;
				while i < msg.len() && i < 8 { SEEN[i] = msg[i]; i += 1; }
				if FAIL { return Err(Error::RemoteKeyError); }
				Ok(SIG.to_vec())
			}
		}
		fn algorithm(&self) -> &'static SignatureAlgorithm { self.alg }
	}
	fn remote(alg: &'static SignatureAlgorithm) -> KeyPair {
		match KeyPair::from_remote(Box::new(Rk { pk: [1, 2, 3, 4], alg })) { Ok(k) => k, Err(_) => { kani::assume(false); unreachable!() } }
	}

	/// @ob sign_der.wrap @props C01 @kind forall @tier quick @timeout 900 @replay none
	/// @bound "to-be-signed body = OCTET STRING of 3 symbolic bytes, signature of 4 symbolic bytes, Ed25519 remote signer" @fns rcgen::KeyPair::sign_der,rcgen::KeyPair::sign
	#[kani::proof]
	#[kani::unwind(24)]
	fn sign_der_wrap() {
		let kp = remote(&PKCS_ED25519);
		let body: [u8; 3] = kani::any();
		let sig: [u8; 4] = kani::any();
		unsafe { SIG = sig; FAIL = false; }
		kani::cover!(true, "reachable");
		let r = kp.sign_der(|w| { w.next().write_bytes(&body); Ok(()) });
		let der = match r { Ok(d) => d, Err(_) => { assert!(false, "signer succeeded, so must sign_der"); return; } };
		// Certificate / CertificationRequest / CertificateList ::= SEQUENCE { tbs, signatureAlgorithm, signatureValue BIT STRING }
		let tbs = [0x30, 0x05, 0x04, 0x03, body[0], body[1], body[2]];
		unsafe {
			assert!(SIGN_CALLS == 1, "exactly one signature is requested");
			assert!(SEEN_LEN == 7, "the signer receives exactly the DER of the to-be-signed part");
			let mut i = 0;
			while i < 7 { assert!(SEEN[i] == tbs[i]); i += 1; }
		}
		assert!(der.len() == 23 && der[0] == 0x30 && der[1] == 21);
		let mut i = 0;
		while i < 7 { assert!(der[2 + i] == tbs[i], "the embedded to-be-signed bytes are the signed bytes"); i += 1; }
		let alg = [0x30, 0x05, 0x06, 0x03, 0x2b, 0x65, 0x70]; // RFC 8410 id-Ed25519, no parameters
		let mut i = 0;
		while i < 7 { assert!(der[9 + i] == alg[i], "outer AlgorithmIdentifier of the signing key"); i += 1; }
		assert!(der[16] == 0x03 && der[17] == 5 && der[18] == 0, "BIT STRING, no unused bits");
		let mut i = 0;
		while i < 4 { assert!(der[19 + i] == sig[i], "signature value embedded unmodified"); i += 1; }
	}

	/// @ob sign_der.error @props C01 @kind forall @tier quick @timeout 900
	/// @bound "same shape, signer returns Err" @fns rcgen::KeyPair::sign_der,rcgen::KeyPair::sign
	#[kani::proof]
	#[kani::unwind(24)]
	fn sign_der_error() {
		let kp = remote(&PKCS_ED25519);
		let body: [u8; 3] = kani::any();
		unsafe { FAIL = true; }
		kani::cover!(true, "reachable");
		let r = kp.sign_der(|w| { w.next().write_bytes(&body); Ok(()) });
		assert!(r.is_err(), "a failing signer yields an error, never an artefact");
		unsafe { assert!(SIGN_CALLS == 1); }
	}

	/// @ob sign_der.body_error @props C01 @kind forall @tier quick @timeout 900
	/// @bound "the to-be-signed writer itself fails" @fns rcgen::KeyPair::sign_der
	#[kani::proof]
	#[kani::unwind(24)]
	fn sign_der_body_error() {
		let kp = remote(&PKCS_ED25519);
		unsafe { FAIL = false; }
		kani::cover!(true, "reachable");
		let r = kp.sign_der(|_w| Err(Error::MissingSerialNumber));
		assert!(r.is_err());
		unsafe { assert!(SIGN_CALLS == 0, "nothing is signed when the body cannot be written"); }
	}

	/// @ob spki.export.ed25519 @props C02,C06,C07,C11 @kind forall @tier quick @timeout 900 @bound "4-byte symbolic raw key, Ed25519" @fns rcgen::serialize_public_key_der,rcgen::KeyPair::public_key_der
	#[kani::proof]
	#[kani::unwind(24)]
	fn spki_export_ed25519() {
		let pk: [u8; 4] = kani::any();
		let k = SubjectPublicKeyInfo { alg: &PKCS_ED25519, subject_public_key: pk.to_vec() };
		kani::cover!(true, "reachable");
		let der = yasna::construct_der(|w| serialize_public_key_der(&k, w));
		// SubjectPublicKeyInfo ::= SEQUENCE { algorithm AlgorithmIdentifier, subjectPublicKey BIT STRING }
		let exp = [0x30, 14, 0x30, 0x05, 0x06, 0x03, 0x2b, 0x65, 0x70, 0x03, 5, 0, pk[0], pk[1], pk[2], pk[3]];
		assert!(der.len() == exp.len());
		let mut i = 0;
		while i < exp.len() { assert!(der[i] == exp[i]); i += 1; }
	}

	/// @ob spki.export.p256 @props C02,C06,C07,C11 @kind forall @tier quick @timeout 900 @bound "4-byte symbolic raw key, ECDSA P-256 (curve OID inside the SPKI algorithm)" @fns rcgen::serialize_public_key_der
	#[kani::proof]
	#[kani::unwind(40)]
	fn spki_export_p256() {
		let pk: [u8; 4] = kani::any();
		let k = SubjectPublicKeyInfo { alg: &PKCS_ECDSA_P256_SHA256, subject_public_key: pk.to_vec() };
		kani::cover!(true, "reachable");
		let der = yasna::construct_der(|w| serialize_public_key_der(&k, w));
		let exp = [0x30, 28, 0x30, 0x13, 0x06, 0x07, 0x2a, 0x86, 0x48, 0xce, 0x3d, 0x02, 0x01, 0x06, 0x08, 0x2a, 0x86, 0x48, 0xce, 0x3d, 0x03, 0x01, 0x07,
			0x03, 5, 0, pk[0], pk[1], pk[2], pk[3]];
		assert!(der.len() == exp.len());
		let mut i = 0;
		while i < exp.len() { assert!(der[i] == exp[i]); i += 1; }
	}

	/// @ob spki.export.rsa @props C02,C06,C07,C11 @kind forall @tier quick @timeout 900 @bound "4-byte symbolic raw key, RSA (NULL parameters)" @fns rcgen::serialize_public_key_der
	#[kani::proof]
	#[kani::unwind(40)]
	fn spki_export_rsa() {
		let pk: [u8; 4] = kani::any();
		let k = SubjectPublicKeyInfo { alg: &PKCS_RSA_SHA256, subject_public_key: pk.to_vec() };
		kani::cover!(true, "reachable");
		let der = yasna::construct_der(|w| serialize_public_key_der(&k, w));
		let exp = [0x30, 22, 0x30, 0x0d, 0x06, 0x09, 0x2a, 0x86, 0x48, 0x86, 0xf7, 0x0d, 0x01, 0x01, 0x01, 0x05, 0x00, 0x03, 5, 0, pk[0], pk[1], pk[2], pk[3]];
		assert!(der.len() == exp.len());
		let mut i = 0;
		while i < exp.len() { assert!(der[i] == exp[i]); i += 1; }
	}

	/// @ob keypair.remote_identity @props C01,C11 @kind forall @tier quick @timeout 900 @bound "remote key with 4-byte symbolic public key" @fns rcgen::KeyPair::from_remote,rcgen::KeyPair::public_key_raw,rcgen::KeyPair::algorithm,rcgen::KeyPair::is_compatible
	#[kani::proof]
	#[kani::unwind(60)]
	fn keypair_remote_identity() {
		let pk: [u8; 4] = kani::any();
		kani::cover!(true, "reachable");
		let kp = match KeyPair::from_remote(Box::new(Rk { pk, alg: &PKCS_ECDSA_P256_SHA256 })) { Ok(k) => k, Err(_) => { assert!(false); return; } };
		// the algorithm written into artefacts is the one the signer reports
		assert!(kp.algorithm() == &PKCS_ECDSA_P256_SHA256);
		assert!(kp.is_compatible(&PKCS_ECDSA_P256_SHA256) && !kp.is_compatible(&PKCS_ED25519));
		let raw = kp.public_key_raw();
		assert!(raw.len() == 4 && raw[0] == pk[0] && raw[1] == pk[1] && raw[2] == pk[2] && raw[3] == pk[3]);
	}

	// ------------------------------------------------------------------ thorough tier: larger shapes
	/// @ob sign_der.wrap.long_form @props C01 @kind bounded @tier thorough @timeout 1800 @mem 24
	/// @bound "to-be-signed body = OCTET STRING of 130 symbolic bytes (long-form lengths), signature of 64 symbolic bytes" @fns rcgen::KeyPair::sign_der,rcgen::KeyPair::sign
	#[kani::proof]
	#[kani::unwind(140)]
	fn sign_der_wrap_long_form() {
		static mut BIG_SIG: [u8; 64] = [0; 64];
		static mut SEEN_BIG: [u8; 136] = [0; 136];
		static mut SEEN_BIG_LEN: usize = 0;
		struct Rk2;
		impl RemoteKeyPair for Rk2 {
			fn public_key(&self) -> &[u8] { &[1, 2, 3, 4] }
			fn sign(&self, msg: &[u8]) -> Result<Vec<u8>, Error> {
				unsafe {
					SEEN_BIG_LEN = msg.len();
					let mut i = 0;
					while i < msg.len() && i < 136 { SEEN_BIG[i] = msg[i]; i += 1; }
					Ok(BIG_SIG.to_vec())
				}
			}
			fn algorithm(&self) -> &'static SignatureAlgorithm { &PKCS_ED25519 }
		}
		let kp = match KeyPair::from_remote(Box::new(Rk2)) { Ok(k) => k, Err(_) => { kani::assume(false); unreachable!() } };
		let body: [u8; 130] = kani::any();
		let sig: [u8; 64] = kani::any();
		unsafe { BIG_SIG = sig; }
		kani::cover!(true, "reachable");
		let der = match kp.sign_der(|w| { w.next().write_bytes(&body); Ok(()) }) { Ok(d) => d, Err(_) => { assert!(false); return; } };
		// tbs = 30 81 85 | 04 81 82 <130 bytes>  (136 bytes); outer = 30 81 D2 | tbs | alg (7) | 03 41 00 <64 bytes> (67)
		unsafe {
			assert!(SEEN_BIG_LEN == 136);
			assert!(SEEN_BIG[0] == 0x30 && SEEN_BIG[1] == 0x81 && SEEN_BIG[2] == 133 && SEEN_BIG[3] == 0x04 && SEEN_BIG[4] == 0x81 && SEEN_BIG[5] == 130);
			let mut i = 0;
			while i < 130 { assert!(SEEN_BIG[6 + i] == body[i]); i += 1; }
			let mut i = 0;
			while i < 136 { assert!(der[3 + i] == SEEN_BIG[i], "embedded bytes = signed bytes"); i += 1; }
		}
		assert!(der.len() == 3 + 136 + 7 + 67 && der[0] == 0x30 && der[1] == 0x81 && der[2] == 210);
		assert!(der[146] == 0x03 && der[147] == 65 && der[148] == 0);
		let mut i = 0;
		while i < 64 { assert!(der[149 + i] == sig[i]); i += 1; }
	}

	/// @ob spki.export.p256_point @props C11,C02 @kind bounded @tier thorough @timeout 1200 @mem 16 @bound "65-byte symbolic uncompressed P-256 point" @fns rcgen::serialize_public_key_der
	#[kani::proof]
	#[kani::unwind(100)]
	fn spki_export_p256_point() {
		let pk: [u8; 65] = kani::any();
		let k = SubjectPublicKeyInfo { alg: &PKCS_ECDSA_P256_SHA256, subject_public_key: pk.to_vec() };
		kani::cover!(true, "reachable");
		let der = yasna::construct_der(|w| serialize_public_key_der(&k, w));
		let hdr = [0x30, 89, 0x30, 0x13, 0x06, 0x07, 0x2a, 0x86, 0x48, 0xce, 0x3d, 0x02, 0x01, 0x06, 0x08, 0x2a, 0x86, 0x48, 0xce, 0x3d, 0x03, 0x01, 0x07, 0x03, 66, 0];
		assert!(der.len() == hdr.len() + 65);
		let mut i = 0;
		while i < hdr.len() { assert!(der[i] == hdr[i]); i += 1; }
		let mut i = 0;
		while i < 65 { assert!(der[hdr.len() + i] == pk[i]); i += 1; }
	}
