	// ===== engine K harnesses for rcgen/src/lib.rs =====
	// Expected values are transcribed from the RFCs cited next to them, never from the code.
	// explicit imports: a harness must not depend on which names the repo's own `use` lines happen to bring in
	use time::{Date, OffsetDateTime, Time, UtcOffset};
	use yasna::models::ObjectIdentifier;
	use yasna::tags::{TAG_BMPSTRING, TAG_PRINTABLESTRING, TAG_TELETEXSTRING, TAG_UNIVERSALSTRING};
	use yasna::{DERWriter, Tag};
	use std::net::IpAddr;
	use crate::string::Ia5String;

	pub(crate) fn fixed_random_state() -> std::hash::RandomState {
		// std's RandomState::new() reaches getrandom (FFI); a fixed state is a sound stand-in because
		// no verified property depends on the hash seed (engine V proves order-independence of names).
		unsafe { core::mem::transmute::<(u64, u64), std::hash::RandomState>((1, 2)) }
	}

	pub(crate) fn ku_of(i: u8) -> KeyUsagePurpose {
		match i {
			0 => KeyUsagePurpose::DigitalSignature,
			1 => KeyUsagePurpose::ContentCommitment,
			2 => KeyUsagePurpose::KeyEncipherment,
			3 => KeyUsagePurpose::DataEncipherment,
			4 => KeyUsagePurpose::KeyAgreement,
			5 => KeyUsagePurpose::KeyCertSign,
			6 => KeyUsagePurpose::CrlSign,
			7 => KeyUsagePurpose::EncipherOnly,
			_ => KeyUsagePurpose::DecipherOnly,
		}
	}

	/// RFC 5280 4.2.1.3: KeyUsage ::= BIT STRING { digitalSignature (0), nonRepudiation (1),
	/// keyEncipherment (2), dataEncipherment (3), keyAgreement (4), keyCertSign (5), cRLSign (6),
	/// encipherOnly (7), decipherOnly (8) }
	pub(crate) fn rfc5280_ku_bit(k: &KeyUsagePurpose) -> u32 {
		match k {
			KeyUsagePurpose::DigitalSignature => 0,
			KeyUsagePurpose::ContentCommitment => 1,
			KeyUsagePurpose::KeyEncipherment => 2,
			KeyUsagePurpose::DataEncipherment => 3,
			KeyUsagePurpose::KeyAgreement => 4,
			KeyUsagePurpose::KeyCertSign => 5,
			KeyUsagePurpose::CrlSign => 6,
			KeyUsagePurpose::EncipherOnly => 7,
			KeyUsagePurpose::DecipherOnly => 8,
		}
	}

	/// @ob ku.to_u16 @props C02,C07,C17 @kind forall @tier quick @fns rcgen::KeyUsagePurpose::to_u16
	#[kani::proof_for_contract(KeyUsagePurpose::to_u16)]
	fn ku_to_u16_contract() {
		let i: u8 = kani::any();
		kani::assume(i < 9);
		kani::cover!(true, "reachable");
		let _ = ku_of(i).to_u16();
	}

	/// @ob san.tag_table @props C02,C07 @kind forall @tier quick @fns rcgen::SanType::tag
	#[kani::proof]
	#[kani::unwind(4)]
	fn san_tag_table() {
		// RFC 5280 p.38 GeneralName: otherName [0], rfc822Name [1], dNSName [2], uniformResourceIdentifier [6], iPAddress [7]
		let s = Ia5String::try_from("a");
		let s = match s { Ok(s) => s, Err(_) => { kani::assume(false); unreachable!() } };
		let a: [u8; 4] = kani::any();
		let b: [u8; 16] = kani::any();
		kani::cover!(true, "reachable");
		assert!(SanType::Rfc822Name(s.clone()).tag() == 1);
		assert!(SanType::DnsName(s.clone()).tag() == 2);
		assert!(SanType::URI(s).tag() == 6);
		assert!(SanType::IpAddress(IpAddr::from(a)).tag() == 7);
		assert!(SanType::IpAddress(IpAddr::from(b)).tag() == 7);
		assert!(SanType::OtherName((Vec::new(), OtherNameValue::Utf8String(String::new()))).tag() == 0);
	}

	pub(crate) fn bare_params() -> CertificateParams {
		CertificateParams {
			not_before: OffsetDateTime::UNIX_EPOCH,
			not_after: OffsetDateTime::UNIX_EPOCH,
			serial_number: None,
			subject_alt_names: Vec::new(),
			distinguished_name: DistinguishedName::new(),
			is_ca: IsCa::NoCa,
			key_usages: Vec::new(),
			extended_key_usages: Vec::new(),
			name_constraints: None,
			crl_distribution_points: Vec::new(),
			custom_extensions: Vec::new(),
			use_authority_key_identifier_extension: false,
			key_identifier_method: KeyIdMethod::PreSpecified(Vec::new()),
		}
	}

	/// @ob ext.wrapper_bytes.critical @props C02,C04,C05,C07,C08 @kind bounded @tier quick @bound "OID 2.5.29.15, value = OCTET STRING of 4 symbolic bytes, critical = true" @fns rcgen::write_x509_extension
	#[kani::proof]
	#[kani::unwind(24)]
	fn x509_extension_bytes_critical() {
		let v: [u8; 4] = kani::any();
		kani::cover!(true, "reachable");
		let der = yasna::construct_der(|w| write_x509_extension(w, &[2, 5, 29, 15], true, |w| w.write_bytes(&v)));
		// Extension ::= SEQUENCE { extnID OID, critical BOOLEAN DEFAULT FALSE, extnValue OCTET STRING }
		let exp = [0x30, 16, 0x06, 3, 0x55, 0x1d, 0x0f, 0x01, 1, 0xff, 0x04, 6, 0x04, 4, v[0], v[1], v[2], v[3]];
		assert!(der.len() == exp.len());
		let mut i = 0;
		while i < exp.len() { assert!(der[i] == exp[i]); i += 1; }
	}

	/// @ob ext.wrapper_bytes.noncritical @props C02,C04,C05,C07,C08 @kind bounded @tier quick @bound "OID 2.5.29.15, value = OCTET STRING of 4 symbolic bytes, critical = false (DEFAULT must be omitted)" @fns rcgen::write_x509_extension
	#[kani::proof]
	#[kani::unwind(24)]
	fn x509_extension_bytes_noncritical() {
		let v: [u8; 4] = kani::any();
		kani::cover!(true, "reachable");
		let der = yasna::construct_der(|w| write_x509_extension(w, &[2, 5, 29, 15], false, |w| w.write_bytes(&v)));
		let exp = [0x30, 13, 0x06, 3, 0x55, 0x1d, 0x0f, 0x04, 6, 0x04, 4, v[0], v[1], v[2], v[3]];
		assert!(der.len() == exp.len());
		let mut i = 0;
		while i < exp.len() { assert!(der[i] == exp[i]); i += 1; }
	}

	/// @ob aki.bytes @props C02,C03,C05,C08 @kind bounded @tier quick @bound "key identifier of 4 symbolic bytes" @fns rcgen::write_x509_authority_key_identifier
	#[kani::proof]
	#[kani::unwind(24)]
	fn aki_bytes() {
		let v: [u8; 4] = kani::any();
		kani::cover!(true, "reachable");
		let der = yasna::construct_der(|w| write_x509_authority_key_identifier(w, v.to_vec()));
		// RFC 5280 4.2.1.1: id-ce 35, non-critical, AuthorityKeyIdentifier ::= SEQUENCE { keyIdentifier [0] IMPLICIT OCTET STRING }
		let exp = [0x30, 15, 0x06, 3, 0x55, 0x1d, 35, 0x04, 8, 0x30, 6, 0x80, 4, v[0], v[1], v[2], v[3]];
		assert!(der.len() == exp.len());
		let mut i = 0;
		while i < exp.len() { assert!(der[i] == exp[i]); i += 1; }
	}

	/// @ob keyid.prespecified @props C02,C03,C08,C17 @kind forall @tier quick @bound "identifier and SPKI of 4 symbolic bytes each" @fns rcgen::KeyIdMethod::derive
	#[kani::proof]
	#[kani::unwind(8)]
	fn keyid_prespecified() {
		let id: [u8; 4] = kani::any();
		let spki: [u8; 4] = kani::any();
		kani::cover!(true, "reachable");
		let got = KeyIdMethod::PreSpecified(id.to_vec()).derive(&spki);
		assert!(got.len() == 4);
		assert!(got[0] == id[0] && got[1] == id[1] && got[2] == id[2] && got[3] == id[3]);
	}

	/// @ob serial.conversions @props C02,C04,C08,C10,C17 @kind forall @tier quick @bound "u64 and 3-byte slices" @fns rcgen::SerialNumber::from_slice,rcgen::SerialNumber::to_bytes,rcgen::SerialNumber::len
	#[kani::proof]
	#[kani::unwind(10)]
	fn serial_conversions() {
		let u: u64 = kani::any();
		let b: [u8; 3] = kani::any();
		kani::cover!(true, "reachable");
		let s = SerialNumber::from(u);
		let be = u.to_be_bytes();
		let sb: &[u8] = s.as_ref();
		assert!(sb.len() == 8 && s.len() == 8);
		let mut i = 0;
		while i < 8 { assert!(sb[i] == be[i]); i += 1; }
		let t = SerialNumber::from_slice(&b);
		let tb = t.to_bytes();
		assert!(t.len() == 3 && tb.len() == 3 && tb[0] == b[0] && tb[1] == b[1] && tb[2] == b[2]);
		let tr: &[u8] = t.as_ref();
		assert!(tr[0] == b[0] && tr[1] == b[1] && tr[2] == b[2]);
		let v = SerialNumber::from(b.to_vec());
		assert!(v == t);
	}

	// ---------------------------------------------------------------- time (C09, C10)
	pub(crate) fn any_dt() -> OffsetDateTime {
		let year: i32 = kani::any();
		kani::assume(year >= -9999 && year <= 9999);
		let ord: u16 = kani::any();
		kani::assume(ord >= 1 && ord <= 366);
		let date = match Date::from_ordinal_date(year, ord) { Ok(d) => d, Err(_) => { kani::assume(false); unreachable!() } };
		let h: u8 = kani::any();
		let m: u8 = kani::any();
		let s: u8 = kani::any();
		let n: u32 = kani::any();
		let t = match Time::from_hms_nano(h, m, s, n) { Ok(t) => t, Err(_) => { kani::assume(false); unreachable!() } };
		let oh: i8 = kani::any();
		let om: i8 = kani::any();
		let os: i8 = kani::any();
		let off = match UtcOffset::from_hms(oh, om, os) { Ok(o) => o, Err(_) => { kani::assume(false); unreachable!() } };
		time::PrimitiveDateTime::new(date, t).assume_offset(off)
	}
	fn d2(b: &[u8], i: usize) -> i32 { ((b[i] - b'0') as i32) * 10 + (b[i + 1] - b'0') as i32 }

	/// the instant in UTC, by the time crate's own conversion (executed symbolically, not assumed);
	/// None when the UTC value is outside the crate's range
	fn utc_of(dt: OffsetDateTime) -> OffsetDateTime {
		match dt.checked_to_offset(UtcOffset::UTC) { Some(u) => u, None => { kani::assume(false); unreachable!() } }
	}

	/// @ob time.form @props C04,C09,C10 @kind forall @tier quick @replay time @timeout 1800 @mem 28 @fns rcgen::write_dt_utc_or_generalized,rcgen::dt_strip_nanos,rcgen::dt_to_generalized
	/// @bound "every OffsetDateTime of the time crate (years -9999..=9999, every ordinal, h:m:s.ns, every UTC offset h:m:s) whose UTC year is in 0..=9999"
	#[kani::proof]
	#[kani::unwind(24)]
	fn time_form() {
		let dt = any_dt();
		let utc = utc_of(dt);
		kani::assume(utc.year() >= 0 && utc.year() <= 9999); // precondition of C09
		kani::cover!(true, "reachable");
		let der = yasna::construct_der(|w| write_dt_utc_or_generalized(w, dt));
		if utc.year() >= 1950 && utc.year() <= 2049 {
			assert!(der[0] == 0x17, "UTCTime exactly when the UTC year is in 1950..=2049");
			assert!(der[1] == 13 && der.len() == 15);
		} else {
			assert!(der[0] == 0x18, "GeneralizedTime outside 1950..=2049");
			assert!(der[1] == 15 && der.len() == 17);
		}
		assert!(der[der.len() - 1] == b'Z', "UTC, trailing Z, no fraction");
	}

	/// @ob time.instant @props C09 @kind forall @tier quick @replay time @timeout 1800 @mem 28 @fns rcgen::write_dt_utc_or_generalized,rcgen::dt_strip_nanos,rcgen::dt_to_generalized
	/// @bound "same domain as time.form; the digits are decoded and compared with the instant in UTC truncated to seconds"
	#[kani::proof]
	#[kani::unwind(24)]
	fn time_instant() {
		let dt = any_dt();
		let utc = utc_of(dt);
		kani::assume(utc.year() >= 0 && utc.year() <= 9999);
		kani::cover!(true, "reachable");
		let der = yasna::construct_der(|w| write_dt_utc_or_generalized(w, dt));
		let rest;
		if der[0] == 0x17 {
			let y2 = d2(&der, 2);
			assert!((if y2 >= 50 { 1900 + y2 } else { 2000 + y2 }) == utc.year());
			rest = 4usize;
		} else {
			assert!(d2(&der, 2) * 100 + d2(&der, 4) == utc.year());
			rest = 6usize;
		}
		assert!(d2(&der, rest) == utc.month() as u8 as i32);
		assert!(d2(&der, rest + 2) == utc.day() as i32);
		assert!(d2(&der, rest + 4) == utc.hour() as i32);
		assert!(d2(&der, rest + 6) == utc.minute() as i32);
		assert!(d2(&der, rest + 8) == utc.second() as i32, "sub-second part truncated, not rounded");
		let mut i = 2;
		while i < rest + 10 { assert!(der[i] >= b'0' && der[i] <= b'9'); i += 1; }
	}

	/// @ob time.any_year_no_panic @props C10 @kind finding @tier quick @timeout 1500 @mem 12 @fns rcgen::write_dt_utc_or_generalized
	/// @bound "every OffsetDateTime of the time crate, no precondition on the year"
	#[kani::proof]
	#[kani::unwind(24)]
	fn time_any_year_no_panic() {
		let dt = any_dt();
		kani::cover!(true, "reachable");
		let _ = yasna::construct_der(|w| write_dt_utc_or_generalized(w, dt));
	}

	/// @ob time.strip_nanos @props C02,C08,C09 @kind forall @tier quick @timeout 900 @mem 20 @replay time @fns rcgen::dt_strip_nanos
	#[kani::proof]
	#[kani::unwind(8)]
	fn strip_nanos_contract() {
		let dt = any_dt();
		kani::cover!(true, "reachable");
		let r = dt_strip_nanos(dt);
		assert!(r.nanosecond() == 0);
		assert!(r.unix_timestamp() == dt.unix_timestamp());
		assert!(r.offset() == dt.offset());
	}

	// ---------------------------------------------------------------- import kernels (C17), x509-parser build
	/// @ob ku.from_u16_roundtrip @props C06,C07,C10,C17 @kind forall @tier quick @timeout 900 @features "x509-parser" @bound "all 512 key-usage sets" @fns rcgen::KeyUsagePurpose::from_u16,rcgen::KeyUsagePurpose::to_u16
	#[cfg(feature = "x509-parser")]
	#[kani::proof]
	#[kani::unwind(12)]
	fn ku_from_u16_roundtrip() {
		let s: u16 = kani::any();
		kani::assume(s & 0x007f == 0); // only the nine defined bits
		kani::cover!(true, "reachable");
		let v = KeyUsagePurpose::from_u16(s);
		// exactly the requested usages, each once, in RFC bit order
		let mut acc: u16 = 0;
		let mut last: i32 = -1;
		let mut i = 0;
		while i < v.len() {
			let bit = rfc5280_ku_bit(&v[i]) as i32;
			assert!(bit > last, "RFC order, no duplicates");
			last = bit;
			acc |= 0x8000u16 >> bit;
			i += 1;
		}
		assert!(acc == s, "from_u16 inverts the union of to_u16");
		core::mem::forget(v);
	}

	/// @ob ip.octet_lengths @props C06,C07,C10,C17 @kind forall @tier quick @timeout 900 @features "x509-parser" @bound "every byte string of length 0..=17" @fns rcgen::ip_addr_from_octets
	#[cfg(feature = "x509-parser")]
	#[kani::proof]
	#[kani::unwind(20)]
	fn ip_octet_lengths() {
		let b: [u8; 17] = kani::any();
		kani::cover!(true, "reachable");
		let mut n = 0usize;
		while n <= 17 {
			let r = ip_addr_from_octets(&b[..n]);
			match r {
				Ok(IpAddr::V4(a)) => { assert!(n == 4); assert!(a.octets() == [b[0], b[1], b[2], b[3]]); },
				Ok(IpAddr::V6(a)) => { assert!(n == 16); let o = a.octets(); let mut i = 0; while i < 16 { assert!(o[i] == b[i]); i += 1; } },
				Err(Error::InvalidIpAddressOctetLength(l)) => { assert!(n != 4 && n != 16 && l == n); },
				Err(_) => assert!(false),
			}
			n += 1;
		}
	}

	// ---------------------------------------------------------------- OID constants (RFC 5280 appendix A, RFC 2985, RFC 5480, RFC 4055)
	fn oid_eq(got: &[u64], want: &[u64]) -> bool {
		if got.len() != want.len() { return false; }
		let mut i = 0;
		while i < want.len() { if got[i] != want[i] { return false; } i += 1; }
		true
	}

	/// @ob oid.constants @props C01,C02,C03,C05,C07,C08,C13,C20 @kind forall @tier quick @bound "finite: every constant of oid.rs" @fns rcgen::oid
	#[kani::proof]
	#[kani::unwind(12)]
	fn oid_constants() {
		kani::cover!(true, "reachable");
		// id-ce = 2.5.29 (RFC 5280 A.2)
		assert!(oid_eq(oid::SUBJECT_KEY_IDENTIFIER, &[2, 5, 29, 14]));
		assert!(oid_eq(oid::KEY_USAGE, &[2, 5, 29, 15]));
		assert!(oid_eq(oid::SUBJECT_ALT_NAME, &[2, 5, 29, 17]));
		assert!(oid_eq(oid::BASIC_CONSTRAINTS, &[2, 5, 29, 19]));
		assert!(oid_eq(oid::CRL_NUMBER, &[2, 5, 29, 20]));
		assert!(oid_eq(oid::CRL_REASONS, &[2, 5, 29, 21]));
		assert!(oid_eq(oid::CRL_INVALIDITY_DATE, &[2, 5, 29, 24]));
		assert!(oid_eq(oid::CRL_ISSUING_DISTRIBUTION_POINT, &[2, 5, 29, 28]));
		assert!(oid_eq(oid::NAME_CONSTRAINTS, &[2, 5, 29, 30]));
		assert!(oid_eq(oid::CRL_DISTRIBUTION_POINTS, &[2, 5, 29, 31]));
		assert!(oid_eq(oid::AUTHORITY_KEY_IDENTIFIER, &[2, 5, 29, 35]));
		assert!(oid_eq(oid::EXT_KEY_USAGE, &[2, 5, 29, 37]));
		// pkcs-9-at-extensionRequest (RFC 2985), id-pe-acmeIdentifier (RFC 8737)
		assert!(oid_eq(oid::PKCS_9_AT_EXTENSION_REQUEST, &[1, 2, 840, 113549, 1, 9, 14]));
		assert!(oid_eq(oid::PE_ACME, &[1, 3, 6, 1, 5, 5, 7, 1, 31]));
		// id-at (X.520 / RFC 5280 A.1)
		assert!(oid_eq(oid::COMMON_NAME, &[2, 5, 4, 3]));
		assert!(oid_eq(oid::COUNTRY_NAME, &[2, 5, 4, 6]));
		assert!(oid_eq(oid::LOCALITY_NAME, &[2, 5, 4, 7]));
		assert!(oid_eq(oid::STATE_OR_PROVINCE_NAME, &[2, 5, 4, 8]));
		assert!(oid_eq(oid::ORG_NAME, &[2, 5, 4, 10]));
		assert!(oid_eq(oid::ORG_UNIT_NAME, &[2, 5, 4, 11]));
		// key algorithms (RFC 5480, RFC 4055)
		assert!(oid_eq(oid::EC_PUBLIC_KEY, &[1, 2, 840, 10045, 2, 1]));
		assert!(oid_eq(oid::EC_SECP_256_R1, &[1, 2, 840, 10045, 3, 1, 7]));
		assert!(oid_eq(oid::EC_SECP_384_R1, &[1, 3, 132, 0, 34]));
		assert!(oid_eq(oid::RSA_ENCRYPTION, &[1, 2, 840, 113549, 1, 1, 1]));
		assert!(oid_eq(oid::RSASSA_PSS, &[1, 2, 840, 113549, 1, 1, 10]));
		// string tags used by the name writer (X.680 table 1)
		assert!(TAG_BMPSTRING == Tag { tag_class: yasna::TagClass::Universal, tag_number: 30 });
		assert!(TAG_PRINTABLESTRING == Tag { tag_class: yasna::TagClass::Universal, tag_number: 19 });
		assert!(TAG_TELETEXSTRING == Tag { tag_class: yasna::TagClass::Universal, tag_number: 20 });
		assert!(TAG_UNIVERSALSTRING == Tag { tag_class: yasna::TagClass::Universal, tag_number: 28 });
	}

	// ---------------------------------------------------------------- yasna primitives rcgen relies on (C04): checked on the REAL yasna code
	// These shrink the assumed contract on yasna for exactly the calls rcgen makes; they are not a proof of yasna.

	/// @ob yasna.bigint.positive_minimal @props C02,C04,C05,C08 @kind forall @tier quick @timeout 900 @bound "every 3-byte input (leading zeros, high bit set, all zero), positive = true" @fns yasna::DERWriter::write_bigint_bytes
	#[kani::proof]
	#[kani::unwind(8)]
	fn yasna_bigint_positive_minimal() {
		let b: [u8; 3] = kani::any();
		kani::cover!(true, "reachable");
		let der = yasna::construct_der(|w| w.write_bigint_bytes(&b, true));
		// X.690 8.3: INTEGER contents are the minimal two's-complement octets; a serial / CRL number is non-negative
		assert!(der[0] == 0x02);
		let n = der[1] as usize;
		assert!(der.len() == 2 + n && n >= 1 && n <= 4);
		let c = &der[2..];
		assert!(c[0] & 0x80 == 0, "non-negative");
		if n > 1 { assert!(!(c[0] == 0 && c[1] & 0x80 == 0), "no redundant leading zero octet"); }
		// value preserved
		let mut v: u32 = 0;
		let mut i = 0;
		while i < n { v = (v << 8) | c[i] as u32; i += 1; }
		assert!(v == ((b[0] as u32) << 16 | (b[1] as u32) << 8 | b[2] as u32));
	}

	/// @ob yasna.bool_true @props C04 @kind forall @tier quick @bound "BOOLEAN TRUE / FALSE" @fns yasna::DERWriter::write_bool
	#[kani::proof]
	#[kani::unwind(4)]
	fn yasna_bool_true() {
		kani::cover!(true, "reachable");
		let t = yasna::construct_der(|w| w.write_bool(true));
		assert!(t.len() == 3 && t[0] == 0x01 && t[1] == 1 && t[2] == 0xff, "DER: TRUE is FF");
		let f = yasna::construct_der(|w| w.write_bool(false));
		assert!(f.len() == 3 && f[0] == 0x01 && f[1] == 1 && f[2] == 0x00);
	}

	// yasna.oid (symbolic arcs) and yasna.set_of (two symbolic one-byte elements) were tried: CBMC resource failure
	// (data-dependent buffer lengths / sorting). The OID and SET OF encoders stay in the assumed contract on yasna;
	// the OID *values* rcgen writes are checked byte for byte in the algid / extension / AKI / key-usage harnesses.

	/// @ob yasna.length.long_form @props C04 @kind bounded @tier thorough @timeout 1200 @mem 16 @bound "OCTET STRING of 130 zero bytes (long-form length)" @fns yasna::DERWriter::write_bytes
	#[kani::proof]
	#[kani::unwind(140)]
	fn yasna_length_long_form() {
		kani::cover!(true, "reachable");
		let v = [0u8; 130];
		let der = yasna::construct_der(|w| w.write_bytes(&v));
		assert!(der.len() == 133 && der[0] == 0x04 && der[1] == 0x81 && der[2] == 130, "minimal long-form length");
	}

	// ---------------------------------------------------------------- thorough tier: larger shapes
	/// @ob aki.bytes.sha_length @props C02,C03,C08 @kind bounded @tier thorough @timeout 1200 @mem 16 @bound "key identifier of 20 symbolic bytes (the length of the RFC 7093 identifiers)" @fns rcgen::write_x509_authority_key_identifier
	#[kani::proof]
	#[kani::unwind(48)]
	fn aki_bytes_sha_length() {
		let v: [u8; 20] = kani::any();
		kani::cover!(true, "reachable");
		let der = yasna::construct_der(|w| write_x509_authority_key_identifier(w, v.to_vec()));
		let hdr = [0x30, 31, 0x06, 3, 0x55, 0x1d, 35, 0x04, 24, 0x30, 22, 0x80, 20];
		assert!(der.len() == 33);
		let mut i = 0;
		while i < 13 { assert!(der[i] == hdr[i]); i += 1; }
		let mut i = 0;
		while i < 20 { assert!(der[13 + i] == v[i]); i += 1; }
	}

	/// @ob ext.wrapper_bytes.long_value @props C02,C04 @kind bounded @tier thorough @timeout 1800 @mem 24 @bound "extension value = OCTET STRING of 130 symbolic bytes (long-form lengths at three nesting levels)" @fns rcgen::write_x509_extension
	#[kani::proof]
	#[kani::unwind(140)]
	fn x509_extension_bytes_long_value() {
		let v: [u8; 130] = kani::any();
		kani::cover!(true, "reachable");
		let der = yasna::construct_der(|w| write_x509_extension(w, &[2, 5, 29, 15], false, |w| w.write_bytes(&v)));
		// 30 81 8d | 06 03 55 1d 0f | 04 81 85 | 04 81 82 <130>
		let hdr = [0x30, 0x81, 141, 0x06, 3, 0x55, 0x1d, 0x0f, 0x04, 0x81, 133, 0x04, 0x81, 130];
		assert!(der.len() == 14 + 130);
		let mut i = 0;
		while i < 14 { assert!(der[i] == hdr[i]); i += 1; }
		let mut i = 0;
		while i < 130 { assert!(der[14 + i] == v[i]); i += 1; }
	}
