//! Minimal independent DER TLV reader (no dependency on yasna / x509-parser).
//! Strict: definite minimal lengths only, single-byte tag numbers < 31.

#[derive(Debug, Clone)]
pub struct Node {
	pub tag: u8,
	pub start: usize,
	pub content: std::ops::Range<usize>,
	pub children: Vec<Node>,
}

impl Node {
	pub fn constructed(&self) -> bool {
		self.tag & 0x20 != 0
	}
	pub fn bytes<'a>(&self, buf: &'a [u8]) -> &'a [u8] {
		&buf[self.content.clone()]
	}
	pub fn whole<'a>(&self, buf: &'a [u8]) -> &'a [u8] {
		&buf[self.start..self.content.end]
	}
}

pub fn parse_one(buf: &[u8], at: usize, end: usize) -> Result<Node, String> {
	if at + 2 > end {
		return Err(format!("truncated TLV at {}", at));
	}
	let tag = buf[at];
	if tag & 0x1f == 0x1f {
		return Err(format!("high tag number at {}", at));
	}
	let l0 = buf[at + 1];
	let (cstart, len) = if l0 < 0x80 {
		(at + 2, l0 as usize)
	} else if l0 == 0x80 {
		return Err(format!("indefinite length at {}", at));
	} else {
		let n = (l0 & 0x7f) as usize;
		if n > 4 || at + 2 + n > end {
			return Err(format!("bad long length at {}", at));
		}
		let mut len = 0usize;
		for i in 0..n {
			len = (len << 8) | buf[at + 2 + i] as usize;
		}
		if buf[at + 2] == 0 || len < 0x80 {
			return Err(format!("non-minimal length at {}", at));
		}
		(at + 2 + n, len)
	};
	if cstart + len > end {
		return Err(format!("length overruns at {}", at));
	}
	let mut children = Vec::new();
	if tag & 0x20 != 0 {
		let mut p = cstart;
		while p < cstart + len {
			let c = parse_one(buf, p, cstart + len)?;
			p = c.content.end;
			children.push(c);
		}
	}
	Ok(Node {
		tag,
		start: at,
		content: cstart..cstart + len,
		children,
	})
}

pub fn parse(buf: &[u8]) -> Result<Node, String> {
	let n = parse_one(buf, 0, buf.len())?;
	if n.content.end != buf.len() {
		return Err("trailing bytes".into());
	}
	Ok(n)
}

/// Decode an OBJECT IDENTIFIER content into dotted text.
pub fn oid_text(b: &[u8]) -> String {
	let mut arcs: Vec<u128> = Vec::new();
	let mut v: u128 = 0;
	let mut first = true;
	for &x in b {
		v = (v << 7) | (x & 0x7f) as u128;
		if x & 0x80 == 0 {
			if first {
				let a0 = if v < 40 { 0 } else if v < 80 { 1 } else { 2 };
				arcs.push(a0);
				arcs.push(v - 40 * a0);
				first = false;
			} else {
				arcs.push(v);
			}
			v = 0;
		}
	}
	arcs.iter().map(|a| a.to_string()).collect::<Vec<_>>().join(".")
}

pub fn hex(b: &[u8]) -> String {
	b.iter().map(|x| format!("{:02x}", x)).collect()
}
