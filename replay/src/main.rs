//! Native replay driver: re-runs a counterexample (or a recorded finding) through the
//! PUBLIC API of the real rcgen in /repo and re-checks the property's postcondition with an
//! independent DER reader.  Usage: verif-replay <replay.json>
//! Exit 0: property holds on this input; 1: violation reproduced; 2: no native replayer /
//! malformed input.  Prints one JSON object {reproduced, observed, required, notes}.
mod der;

use std::net::IpAddr;
use std::panic::{catch_unwind, AssertUnwindSafe};
use std::str::FromStr;

use rcgen::*;
use serde_json::{json, Value};
use time::{Date, Duration, OffsetDateTime, PrimitiveDateTime, Time, UtcOffset};

type R = Result<(bool, Value, Value), String>; // (holds, observed, required)

fn dt_of(v: &Value) -> Result<OffsetDateTime, String> {
	let g = |k: &str| v.get(k).and_then(|x| x.as_i64()).unwrap_or(0);
	let date = Date::from_ordinal_date(g("year") as i32, g("ordinal").max(1) as u16)
		.map_err(|e| e.to_string())?;
	let t = Time::from_hms_nano(g("h") as u8, g("m") as u8, g("s") as u8, g("ns") as u32)
		.map_err(|e| e.to_string())?;
	let off = match v.get("off").and_then(|o| o.as_array()) {
		Some(a) => UtcOffset::from_hms(
			a[0].as_i64().unwrap_or(0) as i8,
			a[1].as_i64().unwrap_or(0) as i8,
			a[2].as_i64().unwrap_or(0) as i8,
		)
		.map_err(|e| e.to_string())?,
		None => UtcOffset::UTC,
	};
	Ok(PrimitiveDateTime::new(date, t).assume_offset(off))
}

/// Independent computation of the UTC calendar fields of an instant (no use of to_offset):
/// works on the unix timestamp with civil-from-days arithmetic.
fn utc_fields(dt: OffsetDateTime) -> (i64, u8, u8, u8, u8, u8) {
	let ts = dt.unix_timestamp();
	let days = ts.div_euclid(86400);
	let sod = ts.rem_euclid(86400);
	let z = days + 719468;
	let era = z.div_euclid(146097);
	let doe = z.rem_euclid(146097);
	let yoe = (doe - doe / 1460 + doe / 36524 - doe / 146096) / 365;
	let y = yoe + era * 400;
	let doy = doe - (365 * yoe + yoe / 4 - yoe / 100);
	let mp = (5 * doy + 2) / 153;
	let d = doy - (153 * mp + 2) / 5 + 1;
	let m = if mp < 10 { mp + 3 } else { mp - 9 };
	let y = if m <= 2 { y + 1 } else { y };
	(y, m as u8, d as u8, (sod / 3600) as u8, ((sod / 60) % 60) as u8, (sod % 60) as u8)
}

fn required_time(dt: OffsetDateTime) -> (u8, String) {
	let (y, mo, d, h, mi, s) = utc_fields(dt);
	if (1950..=2049).contains(&y) {
		(0x17, format!("{:02}{:02}{:02}{:02}{:02}{:02}Z", y % 100, mo, d, h, mi, s))
	} else {
		(0x18, format!("{:04}{:02}{:02}{:02}{:02}{:02}Z", y, mo, d, h, mi, s))
	}
}

fn ku_of(i: i64) -> KeyUsagePurpose {
	use KeyUsagePurpose::*;
	[
		DigitalSignature,
		ContentCommitment,
		KeyEncipherment,
		DataEncipherment,
		KeyAgreement,
		KeyCertSign,
		CrlSign,
		EncipherOnly,
		DecipherOnly,
	][i as usize % 9]
}

fn dn_type(s: &str) -> DnType {
	match s {
		"C" => DnType::CountryName,
		"L" => DnType::LocalityName,
		"ST" => DnType::StateOrProvinceName,
		"O" => DnType::OrganizationName,
		"OU" => DnType::OrganizationalUnitName,
		"CN" => DnType::CommonName,
		other => DnType::CustomDnType(
			other.split('.').filter_map(|x| x.parse::<u64>().ok()).collect(),
		),
	}
}

fn subtree_of(s: &str) -> Result<GeneralSubtree, String> {
	let (k, v) = s.split_once(':').ok_or("subtree needs kind:value")?;
	Ok(match k {
		"dns" => GeneralSubtree::DnsName(v.to_string()),
		"email" => GeneralSubtree::Rfc822Name(v.to_string()),
		"dir" => {
			let mut dn = DistinguishedName::new();
			if !v.is_empty() {
				dn.push(DnType::CommonName, v);
			}
			GeneralSubtree::DirectoryName(dn)
		},
		"ip" => GeneralSubtree::IpAddress(CidrSubnet::from_str(v).map_err(|_| "bad cidr")?),
		_ => return Err("unknown subtree kind".into()),
	})
}

fn san_of(s: &str) -> Result<SanType, String> {
	let (k, v) = s.split_once(':').ok_or("san needs kind:value")?;
	Ok(match k {
		"dns" => SanType::DnsName(v.try_into().map_err(|_| "bad ia5")?),
		"email" => SanType::Rfc822Name(v.try_into().map_err(|_| "bad ia5")?),
		"uri" => SanType::URI(v.try_into().map_err(|_| "bad ia5")?),
		"ip" => SanType::IpAddress(IpAddr::from_str(v).map_err(|_| "bad ip")?),
		_ => return Err("unknown san kind".into()),
	})
}

fn params_of(v: &Value) -> Result<CertificateParams, String> {
	let mut p = CertificateParams::default();
	p.distinguished_name = DistinguishedName::new();
	if let Some(dn) = v.get("dn").and_then(|x| x.as_array()) {
		for e in dn {
			p.distinguished_name
				.push(dn_type(e[0].as_str().unwrap_or("CN")), e[1].as_str().unwrap_or(""));
		}
	}
	if let Some(b) = v.get("aki").and_then(|x| x.as_bool()) {
		p.use_authority_key_identifier_extension = b;
	}
	for s in v.get("san").and_then(|x| x.as_array()).unwrap_or(&vec![]) {
		p.subject_alt_names.push(san_of(s.as_str().unwrap_or(""))?);
	}
	for k in v.get("key_usages").and_then(|x| x.as_array()).unwrap_or(&vec![]) {
		p.key_usages.push(ku_of(k.as_i64().unwrap_or(0)));
	}
	for k in v.get("eku").and_then(|x| x.as_array()).unwrap_or(&vec![]) {
		p.extended_key_usages.push(match k.as_str().unwrap_or("") {
			"any" => ExtendedKeyUsagePurpose::Any,
			"server" => ExtendedKeyUsagePurpose::ServerAuth,
			"client" => ExtendedKeyUsagePurpose::ClientAuth,
			"code" => ExtendedKeyUsagePurpose::CodeSigning,
			"email" => ExtendedKeyUsagePurpose::EmailProtection,
			"ts" => ExtendedKeyUsagePurpose::TimeStamping,
			"ocsp" => ExtendedKeyUsagePurpose::OcspSigning,
			o => ExtendedKeyUsagePurpose::Other(
				o.split('.').filter_map(|x| x.parse::<u64>().ok()).collect(),
			),
		});
	}
	p.is_ca = match v.get("is_ca").and_then(|x| x.as_str()).unwrap_or("noca") {
		"noca" => IsCa::NoCa,
		"explicit" => IsCa::ExplicitNoCa,
		"ca" => IsCa::Ca(BasicConstraints::Unconstrained),
		s if s.starts_with("ca:") => {
			IsCa::Ca(BasicConstraints::Constrained(s[3..].parse().map_err(|_| "bad pathlen")?))
		},
		_ => return Err("bad is_ca".into()),
	};
	if let Some(nc) = v.get("nc").filter(|x| !x.is_null()) {
		let mut c = NameConstraints { permitted_subtrees: vec![], excluded_subtrees: vec![] };
		for s in nc.get("permitted").and_then(|x| x.as_array()).unwrap_or(&vec![]) {
			c.permitted_subtrees.push(subtree_of(s.as_str().unwrap_or(""))?);
		}
		for s in nc.get("excluded").and_then(|x| x.as_array()).unwrap_or(&vec![]) {
			c.excluded_subtrees.push(subtree_of(s.as_str().unwrap_or(""))?);
		}
		p.name_constraints = Some(c);
	}
	for dp in v.get("crldp").and_then(|x| x.as_array()).unwrap_or(&vec![]) {
		p.crl_distribution_points.push(CrlDistributionPoint {
			uris: dp
				.as_array()
				.unwrap_or(&vec![])
				.iter()
				.map(|u| u.as_str().unwrap_or("").to_string())
				.collect(),
		});
	}
	for c in v.get("custom").and_then(|x| x.as_array()).unwrap_or(&vec![]) {
		let oid: Vec<u64> =
			c["oid"].as_array().unwrap_or(&vec![]).iter().filter_map(|x| x.as_u64()).collect();
		let content = unhex(c["content_hex"].as_str().unwrap_or("0500"));
		let mut e = CustomExtension::from_oid_content(&oid, content);
		e.set_criticality(c["critical"].as_bool().unwrap_or(false));
		p.custom_extensions.push(e);
	}
	if let Some(s) = v.get("serial_hex").and_then(|x| x.as_str()) {
		p.serial_number = Some(SerialNumber::from_slice(&unhex(s)));
	}
	if let Some(d) = v.get("not_before") {
		p.not_before = dt_of(d)?;
	}
	if let Some(d) = v.get("not_after") {
		p.not_after = dt_of(d)?;
	}
	Ok(p)
}

fn unhex(s: &str) -> Vec<u8> {
	(0..s.len() / 2).filter_map(|i| u8::from_str_radix(&s[2 * i..2 * i + 2], 16).ok()).collect()
}

const OID_AKI: &str = "2.5.29.35";
const OID_SAN: &str = "2.5.29.17";
const OID_KU: &str = "2.5.29.15";
const OID_EKU: &str = "2.5.29.37";
const OID_NC: &str = "2.5.29.30";
const OID_CRLDP: &str = "2.5.29.31";
const OID_SKI: &str = "2.5.29.14";
const OID_BC: &str = "2.5.29.19";

struct Ext {
	oid: String,
	critical: bool,
	value: Vec<u8>,
	n_fields: usize,
}

fn exts_of(seq: &der::Node, buf: &[u8]) -> Result<Vec<Ext>, String> {
	let mut v = vec![];
	for e in &seq.children {
		if e.tag != 0x30 || e.children.is_empty() {
			return Err("extension is not a SEQUENCE".into());
		}
		let oid = der::oid_text(e.children[0].bytes(buf));
		let mut critical = false;
		let mut idx = 1;
		if e.children.len() > 2 {
			if e.children[1].tag != 0x01 {
				return Err("second field of 3-field extension is not BOOLEAN".into());
			}
			critical = e.children[1].bytes(buf) == [0xff];
			idx = 2;
		}
		if e.children[idx].tag != 0x04 {
			return Err("extnValue is not an OCTET STRING".into());
		}
		v.push(Ext {
			oid,
			critical,
			value: e.children[idx].bytes(buf).to_vec(),
			n_fields: e.children.len(),
		});
	}
	Ok(v)
}

/// Certificate built from `input`, self-signed with a fresh Ed25519 key: check which
/// extensions appear, with which criticality, against what the property requires.
fn replay_cert_params(input: &Value) -> R {
	let p = params_of(input)?;
	let kp = KeyPair::generate_for(&PKCS_ED25519).map_err(|e| e.to_string())?;
	let mut req: Vec<(String, bool)> = vec![];
	if p.use_authority_key_identifier_extension {
		req.push((OID_AKI.into(), false));
	}
	if !p.subject_alt_names.is_empty() {
		req.push((OID_SAN.into(), p.distinguished_name.iter().next().is_none()));
	}
	if !p.key_usages.is_empty() {
		req.push((OID_KU.into(), true));
	}
	if !p.extended_key_usages.is_empty() {
		req.push((OID_EKU.into(), false));
	}
	if let Some(nc) = &p.name_constraints {
		if !nc.permitted_subtrees.is_empty() || !nc.excluded_subtrees.is_empty() {
			req.push((OID_NC.into(), true));
		}
	}
	if !p.crl_distribution_points.is_empty() {
		req.push((OID_CRLDP.into(), false));
	}
	if !matches!(p.is_ca, IsCa::NoCa) {
		req.push((OID_SKI.into(), false));
		req.push((OID_BC.into(), true));
	}
	for c in &p.custom_extensions {
		let oid: Vec<String> = c.oid_components().map(|x| x.to_string()).collect();
		req.push((oid.join("."), c.criticality()));
	}
	let explicit_no_ca = matches!(p.is_ca, IsCa::ExplicitNoCa);
	let want_ku: u16 = p.key_usages.iter().fold(0, |a, k| {
		a | (0x8000u16 >> (0..9).find(|i| ku_of(*i) == *k).unwrap() as u32)
	});
	let cert = p.self_signed(&kp).map_err(|e| format!("generation failed: {}", e))?;
	let buf: &[u8] = cert.der();
	let root = der::parse(buf)?;
	let tbs = &root.children[0];
	let mut obs: Vec<(String, bool)> = vec![];
	let mut notes = vec![];
	let mut ok = true;
	if let Some(w) = tbs.children.iter().find(|c| c.tag == 0xA3) {
		let exts = exts_of(&w.children[0], buf)?;
		if exts.is_empty() {
			ok = false;
			notes.push("[3] wrapper present but empty".to_string());
		}
		for e in &exts {
			obs.push((e.oid.clone(), e.critical));
			if e.n_fields == 3 && !e.critical {
				ok = false;
				notes.push(format!("{}: critical FALSE encoded explicitly", e.oid));
			}
			if e.oid == OID_KU {
				let v = &e.value;
				// 03 len unused b0 [b1]
				let unused = v[2] as usize;
				let bits = (v.len() - 3) * 8 - unused;
				let mut got: u16 = (v[3] as u16) << 8;
				if v.len() > 4 {
					got |= v[4] as u16;
				}
				if got != want_ku {
					ok = false;
					notes.push(format!("keyUsage bits {:04x} != requested {:04x}", got, want_ku));
				}
				let last_set = bits > 0 && (got & (0x8000 >> (bits - 1))) != 0;
				if !last_set {
					ok = false;
					notes.push(format!(
						"keyUsage named-bit list has trailing zero bits (BIT STRING {})",
						der::hex(v)
					));
				}
			}
			if e.oid == OID_BC && explicit_no_ca && e.value != [0x30, 0x00] {
				ok = false;
				notes.push(format!(
					"basicConstraints of a non-CA encodes DEFAULT cA FALSE: {}",
					der::hex(&e.value)
				));
			}
			if e.oid == OID_NC {
				// NameConstraints ::= SEQ { [0] subtrees?, [1] subtrees? }; base [4] must be explicit
				let nc = der::parse(&e.value)?;
				for trees in &nc.children {
					for st in &trees.children {
						let base = &st.children[0];
						if base.tag & 0x1f == 4 {
							let inner_ok = base.tag == 0xA4
								&& base.children.len() == 1 && base.children[0].tag == 0x30;
							if !inner_ok {
								ok = false;
								notes.push(format!(
									"directoryName base is not [4] EXPLICIT Name: {}",
									der::hex(base.whole(&e.value))
								));
							}
						}
					}
				}
			}
		}
	}
	let mut a = obs.clone();
	let mut b = req.clone();
	a.sort();
	b.sort();
	if a != b {
		ok = false;
		notes.push("set of (extension OID, critical) differs from the request".into());
	}
	Ok((ok, json!({"extensions": obs, "notes": notes}), json!({"extensions": req})))
}

fn time_node<'a>(n: &'a der::Node, buf: &[u8]) -> (u8, String) {
	(n.tag, String::from_utf8_lossy(n.bytes(buf)).to_string())
}

/// notBefore of a certificate := dt; check form and digits.
fn replay_time(input: &Value) -> R {
	let dt = dt_of(&input["dt"])?;
	let mut p = CertificateParams::default();
	p.not_before = dt;
	let kp = KeyPair::generate_for(&PKCS_ED25519).map_err(|e| e.to_string())?;
	let (y, ..) = utc_fields(dt);
	let req = required_time(dt);
	let r = catch_unwind(AssertUnwindSafe(|| p.self_signed(&kp)));
	match r {
		Err(_) => Ok((
			false,
			json!({"panic": true, "utc_year": y}),
			json!({"tag": req.0, "text": req.1, "no_panic": true}),
		)),
		Ok(Err(e)) => Ok((true, json!({"error": e.to_string()}), json!("Ok or Err"))),
		Ok(Ok(cert)) => {
			let buf: &[u8] = cert.der();
			let root = der::parse(buf)?;
			let validity = &root.children[0].children[4];
			let got = time_node(&validity.children[0], buf);
			let holds = !(0..=9999).contains(&y) || got == req;
			Ok((holds, json!({"tag": got.0, "text": got.1}), json!({"tag": req.0, "text": req.1})))
		},
	}
}

fn issuer_for(ku: &Value) -> Result<(Certificate, KeyPair), String> {
	let kp = KeyPair::generate_for(&PKCS_ED25519).map_err(|e| e.to_string())?;
	let mut p = CertificateParams::default();
	p.is_ca = IsCa::Ca(BasicConstraints::Unconstrained);
	for k in ku.as_array().unwrap_or(&vec![]) {
		p.key_usages.push(ku_of(k.as_i64().unwrap_or(0)));
	}
	let c = p.self_signed(&kp).map_err(|e| e.to_string())?;
	Ok((c, kp))
}

fn reason_of(n: i64) -> RevocationReason {
	use RevocationReason::*;
	match n {
		0 => Unspecified,
		1 => KeyCompromise,
		2 => CaCompromise,
		3 => AffiliationChanged,
		4 => Superseded,
		5 => CessationOfOperation,
		6 => CertificateHold,
		8 => RemoveFromCrl,
		9 => PrivilegeWithdrawn,
		_ => AaCompromise,
	}
}

fn replay_crl(input: &Value) -> R {
	let (issuer, kp) = issuer_for(input.get("issuer_ku").unwrap_or(&json!([])))?;
	let this = dt_of(&input["this"])?;
	let next = dt_of(&input["next"])?;
	let mut revoked = vec![];
	for r in input.get("revoked").and_then(|x| x.as_array()).unwrap_or(&vec![]) {
		revoked.push(RevokedCertParams {
			serial_number: SerialNumber::from_slice(&unhex(r["serial_hex"].as_str().unwrap_or("01"))),
			revocation_time: dt_of(&r["rev"])?,
			reason_code: r.get("reason").and_then(|x| x.as_i64()).map(reason_of),
			invalidity_date: match r.get("inv").filter(|x| !x.is_null()) {
				Some(d) => Some(dt_of(d)?),
				None => None,
			},
		});
	}
	let n_rev = revoked.len();
	let want_entry: Vec<(Option<i64>, bool)> = input
		.get("revoked")
		.and_then(|x| x.as_array())
		.unwrap_or(&vec![])
		.iter()
		.map(|r| (r.get("reason").and_then(|x| x.as_i64()), r.get("inv").map(|x| !x.is_null()).unwrap_or(false)))
		.collect();
	let idp = input.get("idp").filter(|x| !x.is_null()).map(|i| CrlIssuingDistributionPoint {
		distribution_point: CrlDistributionPoint {
			uris: i["uris"].as_array().unwrap_or(&vec![]).iter().map(|u| u.as_str().unwrap_or("").to_string()).collect(),
		},
		scope: match i.get("scope").and_then(|x| x.as_str()) {
			Some("user") => Some(CrlScope::UserCertsOnly),
			Some("ca") => Some(CrlScope::CaCertsOnly),
			_ => None,
		},
	});
	let want_idp = idp.is_some();
	let params = CertificateRevocationListParams {
		this_update: this,
		next_update: next,
		crl_number: SerialNumber::from_slice(&[1]),
		issuing_distribution_point: idp,
		revoked_certs: revoked,
		key_identifier_method: KeyIdMethod::Sha256,
	};
	let ku = issuer.params().key_usages.clone();
	let must_refuse_ku = !ku.is_empty() && !ku.contains(&KeyUsagePurpose::CrlSign);
	// encoded instants are whole seconds: compare the floor of both
	let must_refuse_order = next.unix_timestamp() <= this.unix_timestamp();
	let res = params.signed_by(&issuer, &kp);
	match res {
		Err(e) => Ok((
			true,
			json!({"result": format!("Err({})", e)}),
			json!({"refusal_required": must_refuse_ku || must_refuse_order}),
		)),
		Ok(crl) => {
			let buf: &[u8] = crl.der();
			let root = der::parse(buf)?;
			let tbs = &root.children[0];
			let t = time_node(&tbs.children[3], buf);
			let n = time_node(&tbs.children[4], buf);
			let mut ok = !(must_refuse_ku || must_refuse_order);
			let mut notes = vec![];
			if !ok {
				notes.push(format!(
					"CRL produced although refusal required (crlSign missing: {}, encoded nextUpdate {} not later than thisUpdate {})",
					must_refuse_ku, n.1, t.1
				));
			}
			if n_rev > 0 {
				let list = &tbs.children[5];
				for (k, entry) in list.children.iter().enumerate() {
					let mut has_reason = false;
					let mut has_inv = false;
					if let Some(exts) = entry.children.get(2) {
						let es = exts_of(exts, buf)?;
						if es.is_empty() {
							ok = false;
							notes.push("empty crlEntryExtensions".to_string());
						}
						for e in es {
							if e.oid == "2.5.29.21" {
								has_reason = true;
							}
							if e.oid == "2.5.29.24" {
								has_inv = true;
								if e.value[0] != 0x18 {
									ok = false;
									notes.push(format!("invalidityDate is not a GeneralizedTime: {}", der::hex(&e.value)));
								}
							}
							if e.critical {
								ok = false;
								notes.push(format!("entry extension {} is critical", e.oid));
							}
						}
					}
					if let Some((reason, inv)) = want_entry.get(k) {
						if *inv != has_inv {
							ok = false;
							notes.push(format!("entry {}: invalidityDate requested={} present={}", k, inv, has_inv));
						}
						match reason {
							None if has_reason => {
								ok = false;
								notes.push(format!("entry {}: reason code written although none was given", k));
							},
							Some(r) if *r != 0 && !has_reason => {
								ok = false;
								notes.push(format!("entry {}: reason {} dropped", k, r));
							},
							_ => {},
						}
					}
				}
			}
			// crlExtensions: AKI + CRL number always, IDP iff requested and then critical
			if let Some(w) = tbs.children.iter().find(|c| c.tag == 0xA0) {
				let es = exts_of(&w.children[0], buf)?;
				let find = |o: &str| es.iter().find(|e| e.oid == o);
				if find("2.5.29.35").is_none() || find("2.5.29.20").is_none() {
					ok = false;
					notes.push("authority key identifier or CRL number missing".to_string());
				}
				match find("2.5.29.28") {
					Some(e) if !want_idp || !e.critical => {
						ok = false;
						notes.push(format!("issuing distribution point: requested={} critical={}", want_idp, e.critical));
					},
					None if want_idp => {
						ok = false;
						notes.push("issuing distribution point requested but missing".to_string());
					},
					_ => {},
				}
			} else {
				ok = false;
				notes.push("crlExtensions missing".to_string());
			}
			Ok((
				ok,
				json!({"result": "Ok", "thisUpdate": t.1, "nextUpdate": n.1, "notes": notes}),
				json!({"refusal_required": must_refuse_ku || must_refuse_order, "invalidityDate_tag": "18"}),
			))
		},
	}
}

/// Generation with one "raw" public field set to a value the DER writer asserts on.
fn replay_panic_site(input: &Value) -> R {
	let site = input["site"].as_str().unwrap_or("");
	let text = input.get("text").and_then(|x| x.as_str()).unwrap_or("\u{e9}").to_string();
	let oid: Vec<u64> = input
		.get("oid")
		.and_then(|x| x.as_array())
		.map(|a| a.iter().filter_map(|x| x.as_u64()).collect())
		.unwrap_or_else(|| vec![1]);
	let kp = KeyPair::generate_for(&PKCS_ED25519).map_err(|e| e.to_string())?;
	let mut p = CertificateParams::default();
	let mut csr_attr: Option<Attribute> = None;
	let mut crl_idp: Option<String> = None;
	match site {
		"crl_dp_uri" => p.crl_distribution_points.push(CrlDistributionPoint { uris: vec![text] }),
		"nc_dns" => {
			p.is_ca = IsCa::Ca(BasicConstraints::Unconstrained);
			p.name_constraints = Some(NameConstraints {
				permitted_subtrees: vec![GeneralSubtree::DnsName(text)],
				excluded_subtrees: vec![],
			})
		},
		"nc_rfc822" => {
			p.is_ca = IsCa::Ca(BasicConstraints::Unconstrained);
			p.name_constraints = Some(NameConstraints {
				permitted_subtrees: vec![],
				excluded_subtrees: vec![GeneralSubtree::Rfc822Name(text)],
			})
		},
		"eku_other_oid" => p.extended_key_usages.push(ExtendedKeyUsagePurpose::Other(oid)),
		"custom_ext_oid" => {
			p.custom_extensions.push(CustomExtension::from_oid_content(&oid, vec![5, 0]))
		},
		"custom_dn_oid" => p.distinguished_name.push(DnType::CustomDnType(oid), "x"),
		"dn_printable" => {
			// a value the PrintableString constructor accepts
			let v = string::PrintableString::try_from(text.as_str()).map_err(|e| e.to_string())?;
			p.distinguished_name.push(DnType::CommonName, DnValue::PrintableString(v))
		},
		"dn_ia5" => {
			let v = string::Ia5String::try_from(text.as_str()).map_err(|e| e.to_string())?;
			p.distinguished_name.push(DnType::CommonName, DnValue::Ia5String(v))
		},
		"san_othername_oid" => {
			p.subject_alt_names.push(SanType::OtherName((oid, OtherNameValue::from("x"))))
		},
		"csr_attr_oid" => {
			let leaked: &'static [u64] = Box::leak(oid.into_boxed_slice());
			csr_attr = Some(Attribute { oid: leaked, values: vec![0x31, 0x00] });
		},
		"crl_idp_uri" => crl_idp = Some(text),
		"time_year" => {
			p.not_before = dt_of(&input["dt"])?;
		},
		_ => return Err(format!("unknown site {}", site)),
	}
	let r = catch_unwind(AssertUnwindSafe(|| {
		if let Some(a) = csr_attr {
			p.serialize_request_with_attributes(&kp, vec![a]).map(|_| ())
		} else if let Some(u) = crl_idp {
			let (issuer, ikp) = issuer_for(&json!([])).unwrap();
			CertificateRevocationListParams {
				this_update: date_time_ymd(2024, 1, 1),
				next_update: date_time_ymd(2024, 2, 1),
				crl_number: SerialNumber::from_slice(&[1]),
				issuing_distribution_point: Some(CrlIssuingDistributionPoint {
					distribution_point: CrlDistributionPoint { uris: vec![u] },
					scope: None,
				}),
				revoked_certs: vec![],
				key_identifier_method: KeyIdMethod::Sha256,
			}
			.signed_by(&issuer, &ikp)
			.map(|_| ())
		} else {
			p.self_signed(&kp).map(|_| ())
		}
	}));
	let (holds, obs) = match r {
		Err(_) => (false, json!("panic")),
		Ok(Ok(())) => (true, json!("Ok")),
		Ok(Err(e)) => (true, json!(format!("Err({})", e))),
	};
	Ok((holds, obs, json!("Ok or Err, never a panic")))
}

/// Edit history on a DistinguishedName against an association-list model.
fn replay_dn_ops(input: &Value) -> R {
	if let Some(pair) = input.get("eq_pair").and_then(|x| x.as_array()) {
		let build = |h: &Value| {
			let mut dn = DistinguishedName::new();
			for op in h.as_array().unwrap_or(&vec![]) {
				let ty = dn_type(op[1].as_str().unwrap_or("CN"));
				if op[0] == "push" {
					dn.push(ty, op[2].as_str().unwrap_or(""));
				} else {
					dn.remove(ty);
				}
			}
			dn
		};
		let (a, b) = (build(&pair[0]), build(&pair[1]));
		let ea: Vec<String> = a.iter().map(|(t, v)| format!("{:?}={:?}", t, v)).collect();
		let eb: Vec<String> = b.iter().map(|(t, v)| format!("{:?}={:?}", t, v)).collect();
		return Ok(((a == b) == (ea == eb), json!({"eq": a == b, "enumerations": [ea, eb]}), json!("== exactly when the enumerations are equal")));
	}
	let mut dn = DistinguishedName::new();
	let mut model: Vec<(DnType, String)> = vec![];
	let mut ok = true;
	let mut notes = vec![];
	for op in input["ops"].as_array().unwrap_or(&vec![]) {
		let ty = dn_type(op[1].as_str().unwrap_or("CN"));
		match op[0].as_str().unwrap_or("") {
			"push" => {
				let v = op[2].as_str().unwrap_or("").to_string();
				dn.push(ty.clone(), v.clone());
				if let Some(e) = model.iter_mut().find(|e| e.0 == ty) {
					e.1 = v;
				} else {
					model.push((ty, v));
				}
			},
			"remove" => {
				let was = model.iter().any(|e| e.0 == ty);
				model.retain(|e| e.0 != ty);
				let r = dn.remove(ty);
				if r != was {
					ok = false;
					notes.push(format!("remove returned {} but presence was {}", r, was));
				}
			},
			_ => return Err("bad op".into()),
		}
	}
	let got: Vec<String> = dn.iter().map(|(t, v)| format!("{:?}={:?}", t, v)).collect();
	let want: Vec<String> = model
		.iter()
		.map(|(t, v)| format!("{:?}={:?}", t, DnValue::Utf8String(v.clone())))
		.collect();
	if got != want {
		ok = false;
	}
	for (t, v) in &model {
		if dn.get(t) != Some(&DnValue::Utf8String(v.clone())) {
			ok = false;
			notes.push(format!("get({:?}) disagrees with enumeration", t));
		}
	}
	Ok((ok, json!({"iter": got, "notes": notes}), json!({"iter": want})))
}

/// Bounded search (labelled bounded, never counted as proof): all push/remove histories up to
/// `max_len` over `types` attribute types and two values, looking for one on which the real
/// DistinguishedName disagrees with the association-list model.  Used only to attach a concrete
/// failing input to an obligation that Verus stopped discharging.
fn replay_dn_search(input: &Value) -> R {
	let max_len = input.get("max_len").and_then(|x| x.as_u64()).unwrap_or(5) as usize;
	let nt = input.get("types").and_then(|x| x.as_u64()).unwrap_or(3) as usize;
	let tys = ["CN", "O", "C", "OU"];
	let mut ops: Vec<Value> = vec![];
	for t in 0..nt.min(4) {
		ops.push(json!(["push", tys[t], "a"]));
		ops.push(json!(["push", tys[t], "b"]));
		ops.push(json!(["remove", tys[t]]));
	}
	let mut tried = 0u64;
	let mut stack: std::collections::VecDeque<Vec<usize>> = std::collections::VecDeque::from(vec![vec![]]);
	while let Some(seq) = stack.pop_front() {
		if !seq.is_empty() {
			tried += 1;
			let hist: Vec<Value> = seq.iter().map(|i| ops[*i].clone()).collect();
			let (ok, obs, want) = replay_dn_ops(&json!({"ops": hist}))?;
			if !ok {
				return Ok((false, json!({"found_input": {"ops": hist}, "observed": obs, "histories_tried": tried}), want));
			}
		}
		if seq.len() < max_len {
			for i in 0..ops.len() {
				let mut n = seq.clone();
				n.push(i);
				stack.push_back(n);
			}
		}
	}
	// equality of two names must mean equality of their enumerations: all pairs of histories up to length 3
	let mut short: Vec<(Vec<Value>, DistinguishedName, Vec<String>)> = vec![];
	let mut stack2: Vec<Vec<usize>> = vec![vec![]];
	while let Some(seq) = stack2.pop() {
		let hist: Vec<Value> = seq.iter().map(|i| ops[*i].clone()).collect();
		let mut dn = DistinguishedName::new();
		for op in &hist {
			let ty = dn_type(op[1].as_str().unwrap_or("CN"));
			if op[0] == "push" {
				dn.push(ty, op[2].as_str().unwrap_or(""));
			} else {
				dn.remove(ty);
			}
		}
		let en: Vec<String> = dn.iter().map(|(t, v)| format!("{:?}={:?}", t, v)).collect();
		short.push((hist, dn, en));
		if seq.len() < 3.min(max_len) {
			for i in 0..ops.len() {
				let mut n = seq.clone();
				n.push(i);
				stack2.push(n);
			}
		}
	}
	let mut pairs = 0u64;
	for a in 0..short.len() {
		for b in a + 1..short.len() {
			pairs += 1;
			if (short[a].1 == short[b].1) != (short[a].2 == short[b].2) {
				return Ok((
					false,
					json!({"found_input": {"eq_pair": [short[a].0, short[b].0]}, "observed": {"eq": short[a].1 == short[b].1, "enumerations": [short[a].2, short[b].2]}, "histories_tried": tried}),
					json!("two names are equal exactly when their enumerations are equal"),
				));
			}
		}
	}
	Ok((true, json!({"histories_tried": tried, "eq_pairs_tried": pairs, "max_len": max_len, "types": nt}), json!("model agreement on every history; == agrees with enumeration equality")))
}

/// C03: import a CA certificate whose subject repeats an attribute type (CN=a,CN=b — obtained by
/// patching the attribute OID inside a certificate generated by rcgen), issue from the imported
/// parameters and compare the issued certificate's issuer field with the CA's subject field.
fn replay_import_repeated_dn(_input: &Value) -> R {
	let ca_key = KeyPair::generate_for(&PKCS_ED25519).map_err(|e| e.to_string())?;
	let mut p = CertificateParams::default();
	p.distinguished_name = DistinguishedName::new();
	p.distinguished_name.push(DnType::CommonName, "a");
	p.distinguished_name.push(DnType::OrganizationName, "b");
	p.is_ca = IsCa::Ca(BasicConstraints::Unconstrained);
	let ca = p.self_signed(&ca_key).map_err(|e| e.to_string())?;
	let mut der: Vec<u8> = ca.der().to_vec();
	// 06 03 55 04 0a (organizationName) -> 06 03 55 04 03 (commonName)
	let mut patched = 0;
	for i in 0..der.len().saturating_sub(4) {
		if der[i..i + 5] == [0x06, 0x03, 0x55, 0x04, 0x0a] {
			der[i + 4] = 0x03;
			patched += 1;
		}
	}
	let root = der::parse(&der)?;
	let subj = root.children[0].children[5].whole(&der).to_vec();
	let imported = match CertificateParams::from_ca_cert_der(&der.clone().into()) {
		Err(e) => return Ok((true, json!({"import": format!("Err({})", e)}), json!("import fails, or issuer == CA subject"))),
		Ok(p) => p,
	};
	let n_attrs = imported.distinguished_name.iter().count();
	let ca2 = imported.self_signed(&ca_key).map_err(|e| e.to_string())?;
	let leaf_key = KeyPair::generate_for(&PKCS_ED25519).map_err(|e| e.to_string())?;
	let leaf = CertificateParams::default().signed_by(&leaf_key, &ca2, &ca_key).map_err(|e| e.to_string())?;
	let lbuf: &[u8] = leaf.der();
	let lroot = der::parse(lbuf)?;
	let issuer = lroot.children[0].children[3].whole(lbuf).to_vec();
	Ok((
		issuer == subj,
		json!({"patched_oids": patched, "ca_subject": der::hex(&subj), "issued_issuer": der::hex(&issuer), "imported_attributes": n_attrs}),
		json!("issuer field byte-identical to the CA certificate's subject (2 attributes)"),
	))
}

fn replay_string(input: &Value) -> R {
	let cps: Vec<u32> = match input.get("cps").and_then(|x| x.as_array()) {
		Some(a) => a.iter().filter_map(|x| x.as_u64()).map(|x| x as u32).collect(),
		None => vec![input["cp"].as_u64().unwrap_or(0x41) as u32],
	};
	let s: String = cps.iter().filter_map(|c| char::from_u32(*c)).collect();
	let ty = input["type"].as_str().unwrap_or("");
	let printable = |c: char| c.is_ascii_alphanumeric() || " '()+,-./:=?".contains(c);
	let (accepted, bytes, want_ok, want_bytes): (bool, Vec<u8>, bool, Vec<u8>) = match ty {
		"printable" => {
			let r = string::PrintableString::try_from(s.as_str());
			(r.is_ok(), r.map(|x| x.as_str().as_bytes().to_vec()).unwrap_or_default(), s.chars().all(printable), s.as_bytes().to_vec())
		},
		"ia5" => {
			let r = string::Ia5String::try_from(s.as_str());
			(r.is_ok(), r.map(|x| x.as_str().as_bytes().to_vec()).unwrap_or_default(), s.chars().all(|c| (c as u32) < 0x80), s.as_bytes().to_vec())
		},
		"teletex" => {
			let r = string::TeletexString::try_from(s.as_str());
			(r.is_ok(), r.map(|x| x.as_bytes().to_vec()).unwrap_or_default(), s.chars().all(|c| (0x20..=0x7f).contains(&(c as u32))), s.as_bytes().to_vec())
		},
		"bmp" => {
			let r = string::BmpString::try_from(s.as_str());
			(r.is_ok(), r.map(|x| x.as_bytes().to_vec()).unwrap_or_default(), s.chars().all(|c| (c as u32) <= 0xFFFE), s.chars().flat_map(|c| (c as u32 as u16).to_be_bytes()).collect())
		},
		"universal" => {
			let r = string::UniversalString::try_from(s.as_str());
			(r.is_ok(), r.map(|x| x.as_bytes().to_vec()).unwrap_or_default(), true, s.chars().flat_map(|c| (c as u32).to_be_bytes()).collect())
		},
		_ => return Err("unknown string type".into()),
	};
	let ok = accepted == want_ok && (!accepted || bytes == want_bytes);
	Ok((ok, json!({"accepted": accepted, "bytes": der::hex(&bytes)}), json!({"accepted": want_ok, "bytes": der::hex(&want_bytes)})))
}

/// byte-level constructors: accept exactly the well-formed encodings (prefixes of the given bytes are tried too)
fn replay_string_bytes(input: &Value) -> R {
	let all: Vec<u8> = input["bytes"].as_array().unwrap_or(&vec![]).iter().filter_map(|x| x.as_u64()).map(|x| x as u8).collect();
	let ty = input["type"].as_str().unwrap_or("");
	let mut notes = vec![];
	let mut ok = true;
	for n in 0..=all.len() {
		let b = &all[..n];
		let (got, want) = match ty {
			"bmp" => {
				let want = n % 2 == 0
					&& b.chunks(2).all(|c| {
						let u = u16::from_be_bytes([c[0], c[1]]);
						!(0xD800..=0xDFFF).contains(&u) && u != 0xFFFF
					});
				(string::BmpString::from_utf16be(b.to_vec()).map(|s| s.as_bytes().to_vec()), want)
			},
			"universal" => {
				let want = n % 4 == 0
					&& b.chunks(4).all(|c| char::from_u32(u32::from_be_bytes([c[0], c[1], c[2], c[3]])).is_some());
				(string::UniversalString::from_utf32be(b.to_vec()).map(|s| s.as_bytes().to_vec()), want)
			},
			_ => return Err("unknown string type".into()),
		};
		if got.is_ok() != want || (want && got.as_ref().ok().map(|x| x.as_slice()) != Some(b)) {
			ok = false;
			notes.push(format!("{}: accepted={} required={}", der::hex(b), got.is_ok(), want));
		}
	}
	Ok((ok, json!({"notes": notes}), json!("accepted exactly when well formed, stored unchanged")))
}

fn replay_cidr(input: &Value) -> R {
	let addr: Vec<u8> = input["addr"].as_array().unwrap_or(&vec![]).iter().filter_map(|x| x.as_u64()).map(|x| x as u8).collect();
	let prefix = input["prefix"].as_u64().unwrap_or(0) as u8;
	let (got, n) = if addr.len() == 4 {
		(CidrSubnet::from_v4_prefix(addr.clone().try_into().unwrap(), prefix), 4)
	} else if addr.len() == 16 {
		(CidrSubnet::from_v6_prefix(addr.clone().try_into().unwrap(), prefix), 16)
	} else {
		return Err("addr must have 4 or 16 octets".into());
	};
	let mut mask = vec![0u8; n];
	for i in 0..(prefix as usize).min(n * 8) {
		mask[i / 8] |= 0x80 >> (i % 8);
	}
	let want = if n == 4 {
		CidrSubnet::V4(addr.clone().try_into().unwrap(), mask.clone().try_into().unwrap())
	} else {
		CidrSubnet::V6(addr.clone().try_into().unwrap(), mask.clone().try_into().unwrap())
	};
	Ok((got == want, json!(format!("{:?}", got)), json!(format!("{:?}", want))))
}

fn replay_csr_refusal(input: &Value) -> R {
	let p = params_of(input)?;
	let must_refuse = p.serial_number.is_some()
		|| !matches!(p.is_ca, IsCa::NoCa)
		|| p.name_constraints.is_some()
		|| !p.crl_distribution_points.is_empty()
		|| p.use_authority_key_identifier_extension;
	let kp = KeyPair::generate_for(&PKCS_ED25519).map_err(|e| e.to_string())?;
	let r = p.serialize_request(&kp);
	let ok = r.is_err() == must_refuse;
	Ok((ok, json!(if r.is_ok() { "Ok" } else { "Err" }), json!(if must_refuse { "Err" } else { "Ok" })))
}

fn main() {
	let path = match std::env::args().nth(1) {
		Some(p) => p,
		None => {
			eprintln!("usage: verif-replay <replay.json>");
			std::process::exit(2)
		},
	};
	let text = std::fs::read_to_string(&path).expect("cannot read replay file");
	let v: Value = serde_json::from_str(&text).expect("replay file is not JSON");
	let kind = v["kind"].as_str().unwrap_or("none").to_string();
	let input = v.get("input").cloned().unwrap_or(Value::Null);
	std::panic::set_hook(Box::new(|_| {}));
	let r = match kind.as_str() {
		"cert_params" => replay_cert_params(&input),
		"time" => replay_time(&input),
		"crl" => replay_crl(&input),
		"panic_site" => replay_panic_site(&input),
		"dn_ops" => replay_dn_ops(&input),
		"dn_search" => replay_dn_search(&input),
		"import_repeated_dn" => replay_import_repeated_dn(&input),
		"string" => replay_string(&input),
		"cidr" => replay_cidr(&input),
		"string_bytes" => replay_string_bytes(&input),
		"csr_refusal" => replay_csr_refusal(&input),
		_ => Err(format!("no native replayer for kind '{}'", kind)),
	};
	let _ = Duration::ZERO;
	match r {
		Ok((holds, observed, required)) => {
			println!(
				"{}",
				json!({"obligation": v["obligation"], "kind": kind, "reproduced": !holds, "observed": observed, "required": required})
			);
			std::process::exit(if holds { 0 } else { 1 });
		},
		Err(e) => {
			println!("{}", json!({"obligation": v["obligation"], "kind": kind, "reproduced": null, "error": e}));
			std::process::exit(2);
		},
	}
}
