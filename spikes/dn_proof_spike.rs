#![feature(allocator_api)]
use vstd::prelude::*;
use vstd::std_specs::cmp::PartialEqSpecImpl;
use std::collections::HashMap;
verus! {

pub assume_specification<T, A, F> [std::vec::Vec::<T, A>::retain] (v: &mut std::vec::Vec<T, A>, f: F)
where
A: std::alloc::Allocator,
F: std::ops::FnMut(&T,) -> bool,
requires forall|x: &T| #[trigger] f.requires((x,)),
ensures
  final(v)@ == old(v)@.filter(|x: T| f.ensures((&x,), true)),
  forall|x: T| #[trigger] f.ensures((&x,), true) || f.ensures((&x,), false),
;

pub enum DnType {
	CountryName,
	LocalityName,
	StateOrProvinceName,
	OrganizationName,
	OrganizationalUnitName,
	CommonName,
	CustomDnType(Vec<u64>),
}
pub enum DnValue {
	Utf8String(String),
}
impl Clone for DnType { #[verifier::external_body] fn clone(&self) -> (r: Self) ensures r == *self { unimplemented!() } }
impl PartialEq for DnType { #[verifier::external_body] fn eq(&self, o: &Self) -> (r: bool) { unimplemented!() } }
impl PartialEqSpecImpl for DnType {
  open spec fn obeys_eq_spec() -> bool { true }
  open spec fn eq_spec(&self, other: &Self) -> bool { *self == *other }
}
impl Eq for DnType {}
impl std::hash::Hash for DnType { #[verifier::external_body] fn hash<H: std::hash::Hasher>(&self, state: &mut H) { unimplemented!() } }

pub broadcast proof fn axiom_dntype_key_model()
  ensures #[trigger] vstd::std_specs::hash::obeys_key_model::<DnType>()
{ admit(); }

pub proof fn lemma_filter_ext<T>(s: Seq<T>, p: spec_fn(T) -> bool, q: spec_fn(T) -> bool)
  requires forall|x: T| #[trigger] p(x) <==> q(x)
  ensures s.filter(p) == s.filter(q)
  decreases s.len()
{
  reveal(Seq::filter);
  if s.len() > 0 { lemma_filter_ext(s.drop_last(), p, q); }
}

pub proof fn lemma_filter_props<T>(s: Seq<T>, p: spec_fn(T) -> bool)
  ensures
    forall|x: T| #[trigger] s.filter(p).contains(x) <==> (s.contains(x) && p(x)),
    s.no_duplicates() ==> s.filter(p).no_duplicates(),
    (forall|x: T| s.contains(x) ==> p(x)) ==> s.filter(p) == s,
  decreases s.len()
{
  reveal(Seq::filter);
  if s.len() == 0 {
    assert(s.filter(p) =~= Seq::<T>::empty());
    assert(s =~= Seq::<T>::empty());
  } else {
    let s0 = s.drop_last();
    let l = s.last();
    lemma_filter_props(s0, p);
    assert(s =~= s0.push(l));
    assert forall|x: T| #[trigger] s.filter(p).contains(x) <==> (s.contains(x) && p(x)) by {
      if p(l) {
        assert(s.filter(p) == s0.filter(p).push(l));
        if s.filter(p).contains(x) {
          let i = choose|i: int| 0 <= i < s.filter(p).len() && s.filter(p)[i] == x;
          if i < s0.filter(p).len() { assert(s0.filter(p)[i] == x); assert(s0.filter(p).contains(x)); assert(s0.contains(x)); let j = choose|j:int| 0 <= j < s0.len() && s0[j] == x; assert(s[j] == x); }
          else { assert(x == l); assert(s[s.len()-1] == x); }
        }
        if s.contains(x) && p(x) {
          let j = choose|j:int| 0 <= j < s.len() && s[j] == x;
          if j < s0.len() { assert(s0[j] == x); assert(s0.contains(x)); assert(s0.filter(p).contains(x)); let i = choose|i:int| 0 <= i < s0.filter(p).len() && s0.filter(p)[i] == x; assert(s.filter(p)[i] == x); }
          else { assert(s.filter(p)[s.filter(p).len()-1] == x); }
        }
      } else {
        assert(s.filter(p) == s0.filter(p));
        if s.contains(x) && p(x) {
          let j = choose|j:int| 0 <= j < s.len() && s[j] == x;
          assert(j < s0.len());
          assert(s0[j] == x);
        }
        if s0.contains(x) { let j = choose|j:int| 0 <= j < s0.len() && s0[j] == x; assert(s[j] == x); }
      }
    }
    if s.no_duplicates() {
      assert(s0.no_duplicates());
      if p(l) {
        assert(!s0.contains(l)) by { if s0.contains(l) { let j = choose|j:int| 0 <= j < s0.len() && s0[j] == l; assert(s[j] == s[s.len()-1]); } }
        assert(!s0.filter(p).contains(l));
        assert(s.filter(p) == s0.filter(p).push(l));
        assert(s.filter(p).no_duplicates());
      }
    }
    if forall|x: T| s.contains(x) ==> p(x) {
      assert(s.contains(l)) by { assert(s[s.len()-1] == l); }
      assert forall|x: T| s0.contains(x) implies p(x) by { let j = choose|j:int| 0 <= j < s0.len() && s0[j] == x; assert(s[j] == x); assert(s.contains(x)); }
      assert(s.filter(p) == s0.push(l));
    }
  }
}

pub struct DistinguishedName {
	entries: HashMap<DnType, DnValue>,
	order: Vec<DnType>,
}

impl DistinguishedName {
	pub closed spec fn ord(&self) -> Seq<DnType> { self.order@ }
	pub closed spec fn ents(&self) -> Map<DnType, DnValue> { self.entries@ }
	pub closed spec fn wf(&self) -> bool {
		&&& self.order@.no_duplicates()
		&&& forall|t: DnType| #[trigger] self.order@.contains(t) <==> self.entries@.contains_key(t)
	}
	pub fn get(&self, ty: &DnType) -> (r: Option<&DnValue>)
		requires self.wf()
		ensures
			r.is_some() <==> self.ord().contains(*ty),
			r.is_some() ==> *r.unwrap() == self.ents()[*ty],
	{
		broadcast use axiom_dntype_key_model;
		self.entries.get(ty)
	}
	pub fn remove(&mut self, ty: DnType) -> (removed: bool)
		requires old(self).wf()
		ensures
			final(self).wf(),
			removed == old(self).ord().contains(ty),
			final(self).ord() == old(self).ord().filter(|t: DnType| t != ty),
			final(self).ents() == old(self).ents().remove(ty),
	{
		broadcast use axiom_dntype_key_model;
		let removed = self.entries.remove(&ty).is_some();
		let ghost q = |t: DnType| t != ty;
		if removed {
			self.order.retain(|ty_o: &DnType| -> (b: bool) ensures b == (ty != *ty_o) { &ty != ty_o });
			proof {
				let o = old(self).order@;
				let n = self.order@;
				let p = choose|p: spec_fn(DnType) -> bool| n == #[trigger] o.filter(p) && (forall|x: DnType| #[trigger] p(x) <==> x != ty);
				lemma_filter_ext(o, p, q);
				lemma_filter_props(o, q);
			}
		} else {
			proof { lemma_filter_props(old(self).order@, q); }
		}
		removed
	}
	pub fn push(&mut self, ty: DnType, s: impl Into<DnValue>)
		requires old(self).wf()
		ensures
			final(self).wf(),
			old(self).ord().contains(ty) ==> final(self).ord() == old(self).ord(),
			!old(self).ord().contains(ty) ==> final(self).ord() == old(self).ord().push(ty),
			final(self).ents().dom() == old(self).ents().dom().insert(ty),
			forall|t: DnType| t != ty && old(self).ents().contains_key(t) ==> #[trigger] final(self).ents()[t] == old(self).ents()[t],
	{
		broadcast use axiom_dntype_key_model;
		if !self.entries.contains_key(&ty) {
			self.order.push(ty.clone());
			proof {
				let o = old(self).order@;
				assert(self.order@ == o.push(ty));
				assert(!o.contains(ty));
				assert(self.order@.no_duplicates());
				assert forall|t: DnType| #[trigger] self.order@.contains(t) <==> (o.contains(t) || t == ty) by {
					if o.contains(t) { let j = choose|j:int| 0 <= j < o.len() && o[j] == t; assert(self.order@[j] == t); }
					if t == ty { assert(self.order@[o.len() as int] == t); }
				}
			}
		}
		self.entries.insert(ty, s.into());
	}
}
}
fn main() {}
