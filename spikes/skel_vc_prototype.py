# Throw-away prototype of the engine-S checker: wrapper-guard VC for the certificate extensions block.
import json, subprocess, sys, os
import z3

env = dict(os.environ, SKEL_JSON="1")
out = subprocess.run(["./target/debug/skel", sys.argv[1]], env=env, capture_output=True, text=True).stdout
units = {}
for line in out.splitlines():
    u = json.loads(line); units[u["unit"]] = u["body"]
body = units["CertificateParams::serialize_der_with_signer"]

ATOMS = {  # positive code expressions -> atom
 "self.use_authority_key_identifier_extension": "aki",
 "self.subject_alt_names.is_empty()": "san_empty",
 "self.extended_key_usages.is_empty()": "eku_empty",
 "self.key_usages.is_empty()": "ku_empty",
 "self.crl_distribution_points.is_empty()": "crldp_empty",
 "self.custom_extensions.is_empty()": "custom_empty",
 "matches!(self.is_ca, IsCa::ExplicitNoCa)": "isca_explicit",
 "matches!(self.is_ca, IsCa::Ca(_))": "isca_ca",
 "self.name_constraints.iter().any(|c|!c.is_empty())": "nc_any_nonempty",
 "let Some(name_constraints) = &self.name_constraints": "nc_some",
 "name_constraints.is_empty()": "nc_empty",
 "let Some(ref serial) = self.serial_number": "serial_some",
 "self.serial_number.is_none()": "serial_none",
}
B = {v: z3.Bool(v) for v in set(ATOMS.values()) | {"isca_noca"}}
THEORY = [
  z3.PbEq([(B["isca_ca"],1),(B["isca_explicit"],1),(B["isca_noca"],1)], 1),
  B["nc_any_nonempty"] == z3.And(B["nc_some"], z3.Not(B["nc_empty"])),
  B["serial_none"] == z3.Not(B["serial_some"]),
]
CALLEE_GUARD = {  # callee summaries: emits one extension iff guard
  "self.write_key_usage": z3.Not(B["ku_empty"]),
  "self.write_subject_alt_names": z3.Not(B["san_empty"]),
}
class Undecided(Exception): pass
def norm(t): return " ".join(t.split()).replace("matches !(", "matches!(").replace("| c |", "|c|").replace("|c| !c", "|c|!c")
def cond(c):
    if "not" in c: return z3.Not(cond(c["not"]))
    if "or" in c: return z3.Or(*[cond(x) for x in c["or"]])
    if "and" in c: return z3.And(*[cond(x) for x in c["and"]])
    a = norm(c["atom"])
    for k,v in ATOMS.items():
        if norm(k) == a: return B[v]
    raise Undecided("unrecognised atom: "+a)

lets = {}
leaves = []   # (path condition, description)
def walk(nodes, pc, inside_wrapper):
    """returns the condition under which control continues past these nodes"""
    for n in nodes:
        k = n["k"]
        if k == "let":
            lets[n["name"]] = n
        elif k == "if":
            ct = norm(n["cond_text"])
            if ct.startswith("!") and ct[1:] in lets: c = z3.Not(cond(lets[ct[1:]]["cond"]))
            elif ct in lets: c = cond(lets[ct]["cond"])
            else: c = cond(n["cond"])
            returns = any(x["k"] == "return" for x in n["then"])
            walk(n["then"], z3.And(pc, c), inside_wrapper)
            walk(n["else"], z3.And(pc, z3.Not(c)), inside_wrapper)
            if returns: pc = z3.And(pc, z3.Not(c))
        elif k == "match" and norm(n["on"]) == "self.is_ca":
            for arm in n["arms"]:
                p = norm(arm["pat"])
                a = {"IsCa::Ca(ref constraint)": "isca_ca", "IsCa::ExplicitNoCa": "isca_explicit", "IsCa::NoCa": "isca_noca"}.get(p)
                if a is None: raise Undecided("arm "+p)
                walk(arm["body"], z3.And(pc, B[a]), inside_wrapper)
        elif k == "for":
            it = norm(n["iter"]).lstrip("&").strip()
            a = ATOMS.get(it + ".is_empty()")
            if a is None: raise Undecided("for over "+it)
            walk(n["body"], z3.And(pc, z3.Not(B[a])), inside_wrapper)
        elif k == "tagged" and n["explicit"] and norm(n["tag"]) == "Tag::context(3)":
            leaves.append((pc, "WRAPPER[3]"))
            walk(n["body"], z3.BoolVal(True), True)
        elif k in ("cons", "tagged", "cfg"):
            walk(n["body"], pc, inside_wrapper)
        elif k == "call":
            if inside_wrapper:
                g = CALLEE_GUARD.get(norm(n["callee"]), z3.BoolVal(True))
                leaves.append((z3.And(pc, g), "EXT via %s(%s)" % (n["callee"], ", ".join(n["args"])[:40])))
            else:
                for v in n["values"]: walk(v, pc, inside_wrapper)
    return pc

try:
    walk(body, z3.BoolVal(True), False)
except Undecided as e:
    print("UNDECIDED", e); sys.exit(2)
wrapper = [pc for pc,d in leaves if d == "WRAPPER[3]"]
exts = [(pc,d) for pc,d in leaves if d != "WRAPPER[3]"]
print("extension emission sites:", len(exts))
for pc,d in exts: print("   ", d, " when ", z3.simplify(pc))
s = z3.Solver(); s.add(*THEORY)
any_ext = z3.Or(*[pc for pc,_ in exts])
s.add(wrapper[0] != any_ext)      # VC: wrapper guard <=> disjunction of inner guards (inner guards evaluated without the early return)
print("VC tbs.ext_wrapper_guard:", s.check())
if s.check() == z3.sat:
    m = s.model(); print("  counterexample atoms:", {k: m.eval(v, model_completion=True) for k,v in sorted(B.items())})
