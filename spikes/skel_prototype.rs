// Throw-away prototype of the emission-skeleton extractor (engine S).
use quote::ToTokens;
use std::collections::HashSet;
use syn::*;

#[derive(Debug)]
enum N {
    Cons(String, Vec<N>),                 // write_sequence / set / set_of
    Tagged(bool, String, Vec<N>),         // explicit?, tag expr, inner
    Prim(String, Vec<String>),            // write_xxx(args)
    Call(String, Vec<String>, Vec<Vec<N>>), // callee, non-writer args, closure skeletons
    If(String, Vec<N>, Vec<N>),
    Match(String, Vec<(String, Vec<N>)>),
    For(String, String, Vec<N>),
    Let(String, String),
    Return(String),
    Cfg(String, Vec<N>),
    Opaque(String),
}

struct Cx { writers: HashSet<String> }

fn txt<T: ToTokens>(t: &T) -> String { t.to_token_stream().to_string().replace(" . ", ".").replace(" (", "(").replace("( ", "(").replace(" )", ")").replace(" ,", ",").replace("& ", "&").replace(" :: ", "::").replace("! ", "!") }

fn is_writer_ty(t: &Type) -> bool { let s = txt(t); s.contains("DERWriter") }

impl Cx {
    fn is_slot(&self, e: &Expr) -> bool {
        match e {
            Expr::Path(p) => p.path.get_ident().map(|i| self.writers.contains(&i.to_string())).unwrap_or(false),
            Expr::MethodCall(m) if m.method == "next" && m.args.is_empty() => self.is_slot(&m.receiver),
            Expr::Paren(p) => self.is_slot(&p.expr),
            _ => false,
        }
    }
    fn uses_writer(&self, e: &Expr) -> bool {
        let s = format!(" {} ", e.to_token_stream().to_string());
        self.writers.iter().any(|w| s.contains(&format!(" {} ", w)))
    }
    fn closure(&mut self, c: &ExprClosure) -> Vec<N> {
        let mut added = vec![];
        for p in &c.inputs { if let Pat::Ident(i) = p { let n = i.ident.to_string(); if self.writers.insert(n.clone()) { added.push(n); } } }
        let r = self.expr(&c.body);
        for a in added { self.writers.remove(&a); }
        r
    }
    fn block(&mut self, b: &Block) -> Vec<N> {
        let mut out = vec![];
        for s in &b.stmts {
            match s {
                Stmt::Local(l) => {
                    let name = txt(&l.pat);
                    if let Some(init) = &l.init {
                        let r = self.expr(&init.expr);
                        if !r.is_empty() && r.iter().any(|n| matches!(n, N::Call(..) | N::Cons(..) | N::Prim(..) | N::Tagged(..))) { out.extend(r); } else { out.push(N::Let(name, txt(&init.expr))); }
                    }
                }
                Stmt::Expr(e, _) => out.extend(self.expr(e)),
                Stmt::Macro(m) => out.push(N::Opaque(txt(m))),
                Stmt::Item(_) => {}
            }
        }
        out
    }
    fn cfg_wrap(attrs: &[Attribute], inner: Vec<N>) -> Vec<N> {
        for a in attrs { if a.path().is_ident("cfg") { return vec![N::Cfg(txt(&a.meta), inner)]; } }
        inner
    }
    fn expr(&mut self, e: &Expr) -> Vec<N> {
        match e {
            Expr::Block(b) => Self::cfg_wrap(&b.attrs, self.block(&b.block)),
            Expr::Paren(p) => self.expr(&p.expr),
            Expr::Try(t) => self.expr(&t.expr),
            Expr::Reference(r) => self.expr(&r.expr),
            Expr::If(i) => {
                let c = txt(&i.cond);
                let t = self.block(&i.then_branch);
                let f = match &i.else_branch { Some((_, e)) => self.expr(e), None => vec![] };
                Self::cfg_wrap(&i.attrs, vec![N::If(c, t, f)])
            }
            Expr::Match(m) => {
                let mut arms = vec![];
                for a in &m.arms {
                    let mut p = txt(&a.pat);
                    if let Some((_, g)) = &a.guard { p = format!("{} if {}", p, txt(g)); }
                    for at in &a.attrs { if at.path().is_ident("cfg") { p = format!("#[{}] {}", txt(&at.meta), p); } }
                    // bind nothing new as writers
                    arms.push((p, self.expr(&a.body)));
                }
                vec![N::Match(txt(&m.expr), arms)]
            }
            Expr::ForLoop(f) => vec![N::For(txt(&f.pat), txt(&f.expr), self.block(&f.body))],
            Expr::Return(r) => vec![N::Return(r.expr.as_ref().map(|e| txt(e)).unwrap_or_default())],
            Expr::Closure(c) => self.closure(c),
            Expr::MethodCall(m) => {
                let meth = m.method.to_string();
                let recv_slot = self.is_slot(&m.receiver);
                if recv_slot && ["write_sequence", "write_sequence_of", "write_set", "write_set_of"].contains(&meth.as_str()) {
                    if let Some(Expr::Closure(c)) = m.args.first() { return vec![N::Cons(meth, self.closure(c))]; }
                }
                if recv_slot && (meth == "write_tagged" || meth == "write_tagged_implicit") {
                    let tag = txt(&m.args[0]);
                    if let Expr::Closure(c) = &m.args[1] { return vec![N::Tagged(meth == "write_tagged", tag, self.closure(c))]; }
                }
                if recv_slot && meth.starts_with("write_") {
                    return vec![N::Prim(meth, m.args.iter().map(|a| txt(a)).collect())];
                }
                if recv_slot { return vec![N::Opaque(txt(e))]; }
                // call with writer argument?
                let any_slot = m.args.iter().any(|a| self.is_slot(a));
                let any_closure_w = m.args.iter().any(|a| matches!(a, Expr::Closure(_)) && true);
                if any_slot || (any_closure_w && (meth.contains("construct_der") || meth == "sign_der" || meth == "write_sequence")) {
                    let mut args = vec![]; let mut cl = vec![];
                    for a in &m.args { if self.is_slot(a) { continue; } if let Expr::Closure(c) = a { cl.push(self.closure(c)); } else { args.push(txt(a)); } }
                    return vec![N::Call(format!("{}.{}", txt(&m.receiver), meth), args, cl)];
                }
                if self.uses_writer(e) { let mut v = self.expr(&m.receiver); for a in &m.args { if self.uses_writer(a) { v.extend(self.expr(a)); } } return v; }
                vec![]
            }
            Expr::Call(c) => {
                let f = txt(&c.func);
                let any_slot = c.args.iter().any(|a| self.is_slot(a));
                let has_cl = c.args.iter().any(|a| matches!(a, Expr::Closure(_)));
                if any_slot || (has_cl && f.contains("construct_der")) {
                    let mut args = vec![]; let mut cl = vec![];
                    for a in &c.args { if self.is_slot(a) { continue; } if let Expr::Closure(k) = a { cl.push(self.closure(k)); } else { args.push(txt(a)); } }
                    return vec![N::Call(f, args, cl)];
                }
                if self.uses_writer(e) { let mut v = vec![]; for a in &c.args { if self.uses_writer(a) { v.extend(self.expr(a)); } } return v; }
                vec![]
            }
            Expr::Macro(m) => if self.uses_writer(e) { vec![N::Opaque(txt(m))] } else { vec![] },
            _ => if self.uses_writer(e) { vec![N::Opaque(txt(e))] } else { vec![] },
        }
    }
}

fn cond_json(e: &Expr) -> serde_json::Value {
    use serde_json::json;
    match e {
        Expr::Paren(p) => cond_json(&p.expr),
        Expr::Group(g) => cond_json(&g.expr),
        Expr::Unary(u) if matches!(u.op, UnOp::Not(_)) => json!({"not": cond_json(&u.expr)}),
        Expr::Binary(b) if matches!(b.op, BinOp::Or(_)) => json!({"or": [cond_json(&b.left), cond_json(&b.right)]}),
        Expr::Binary(b) if matches!(b.op, BinOp::And(_)) => json!({"and": [cond_json(&b.left), cond_json(&b.right)]}),
        Expr::Let(l) => json!({"atom": format!("let {} = {}", txt(&l.pat), txt(&l.expr))}),
        _ => json!({"atom": txt(e)}),
    }
}
fn cond_of_text(t: &str) -> serde_json::Value {
    match syn::parse_str::<Expr>(t) { Ok(e) => cond_json(&e), Err(_) => serde_json::json!({"atom": t}) }
}
fn to_json(ns: &[N]) -> serde_json::Value {
    use serde_json::json;
    serde_json::Value::Array(ns.iter().map(|n| match n {
        N::Cons(k, c) => json!({"k": "cons", "kind": k, "body": to_json(c)}),
        N::Tagged(x, t, c) => json!({"k": "tagged", "explicit": x, "tag": t, "body": to_json(c)}),
        N::Prim(m, a) => json!({"k": "prim", "method": m, "args": a}),
        N::Call(f, a, cl) => json!({"k": "call", "callee": f, "args": a, "values": cl.iter().map(|c| to_json(c)).collect::<Vec<_>>()}),
        N::If(c, t, f) => json!({"k": "if", "cond": cond_of_text(c), "cond_text": c, "then": to_json(t), "else": to_json(f)}),
        N::Match(s, arms) => json!({"k": "match", "on": s, "arms": arms.iter().map(|(p, b)| json!({"pat": p, "body": to_json(b)})).collect::<Vec<_>>()}),
        N::For(p, it, b) => json!({"k": "for", "pat": p, "iter": it, "body": to_json(b)}),
        N::Let(nm, e) => json!({"k": "let", "name": nm, "expr": e, "cond": cond_of_text(e)}),
        N::Return(e) => json!({"k": "return", "expr": e}),
        N::Cfg(c, b) => json!({"k": "cfg", "pred": c, "body": to_json(b)}),
        N::Opaque(s) => json!({"k": "opaque", "text": s}),
    }).collect())
}

fn show(ns: &[N], ind: usize) {
    let p = " ".repeat(ind);
    for n in ns {
        match n {
            N::Cons(k, c) => { println!("{p}{k} {{"); show(c, ind + 2); println!("{p}}}"); }
            N::Tagged(x, t, c) => { println!("{p}{} {t} {{", if *x { "EXPLICIT" } else { "IMPLICIT" }); show(c, ind + 2); println!("{p}}}"); }
            N::Prim(m, a) => println!("{p}{m}({})", a.join(", ")),
            N::Call(f, a, cl) => { println!("{p}CALL {f}({})", a.join(", ")); for c in cl { println!("{p}  value {{"); show(c, ind + 4); println!("{p}  }}"); } }
            N::If(c, t, f) => { println!("{p}IF {c} {{"); show(t, ind + 2); if !f.is_empty() { println!("{p}}} ELSE {{"); show(f, ind + 2); } println!("{p}}}"); }
            N::Match(s, arms) => { println!("{p}MATCH {s} {{"); for (pa, b) in arms { println!("{p}  {pa} =>"); show(b, ind + 4); } println!("{p}}}"); }
            N::For(pt, it, b) => { println!("{p}FOR {pt} IN {it} {{"); show(b, ind + 2); println!("{p}}}"); }
            N::Let(nm, e) => println!("{p}LET {nm} = {}", if e.len() > 150 { &e[..150] } else { e }),
            N::Return(e) => println!("{p}RETURN {e}"),
            N::Cfg(c, b) => { println!("{p}#[{c}] {{"); show(b, ind + 2); println!("{p}}}"); }
            N::Opaque(s) => println!("{p}OPAQUE {}", if s.len() > 100 { &s[..100] } else { s }),
        }
    }
}

fn run_fn(sig: &Signature, block: &Block, owner: &str) {
    let mut cx = Cx { writers: HashSet::new() };
    for a in &sig.inputs { if let FnArg::Typed(t) = a { if is_writer_ty(&t.ty) { cx.writers.insert(txt(&t.pat)); } } }
    let r = cx.block(block);
    fn nontrivial(ns: &[N]) -> bool { ns.iter().any(|n| !matches!(n, N::Let(..) | N::Return(..))) }
    if !nontrivial(&r) { return; }
    if std::env::var("SKEL_JSON").is_ok() {
        println!("{}", serde_json::json!({"unit": format!("{}{}", owner, sig.ident), "body": to_json(&r)}));
    } else {
        println!("=== {}{} ===", owner, sig.ident);
        show(&r, 0);
    }
}

fn main() {
    for path in std::env::args().skip(1) {
        let src = std::fs::read_to_string(&path).unwrap();
        let f = parse_file(&src).unwrap();
        for it in &f.items {
            match it {
                Item::Fn(i) => run_fn(&i.sig, &i.block, ""),
                Item::Impl(im) => { let o = format!("{}::", txt(&im.self_ty)); for ii in &im.items { if let ImplItem::Fn(m) = ii { run_fn(&m.sig, &m.block, &o); } } }
                _ => {}
            }
        }
    }
}
