#!/usr/bin/env python3
"""prints the markdown table of section 9.1 of DESIGN.md from seeded/*/meta.json and seeded/RESULTS.json"""
import json, os
V = os.path.dirname(os.path.dirname(os.path.abspath(__file__)))
res = json.load(open(os.path.join(V, "seeded", "RESULTS.json")))
print("| change | needs, in order to manifest | check exit | obligations that fail (first three) | concrete input replayed |")
print("|---|---|---|---|---|")
def need(meta):
    t = " ".join(meta.get("needs_to_manifest", "").replace("|", "/").split())
    t = t.replace("## Change", "—").replace("## What the mutant changes", "—").lstrip("# ")
    return t if len(t) <= 230 else t[:227] + "…"


for sid in sorted(res):
    meta = json.load(open(os.path.join(V, "seeded", sid, "meta.json")))
    r = res[sid]
    v = r["violations"]
    short = [x.split(".", 1)[1] for x in v[:3]]
    rep = "yes" if len(r["no_failing_input"]) < len(v) else ("no (no-failing-input-found)" if v else "—")
    print("| %s | %s | %d | %s%s | %s |" % (sid, need(meta), r["exit"], ", ".join("`%s`" % s for s in short), " …" if len(v) > 3 else "", rep))
