#!/usr/bin/env python3
"""developer aid: apply each benign refactoring to /repo, run the quick check of every property whose machinery touches the
changed files, undo; a VIOLATION here is a false alarm. usage: tools/benigntest.py [ids...] [--props C02,C05]"""
import json, os, subprocess, sys, time
V = os.path.dirname(os.path.dirname(os.path.abspath(__file__)))
args = [a for a in sys.argv[1:] if not a.startswith("--")]
props = None
for a in sys.argv[1:]:
    if a.startswith("--props"):
        props = a.split("=", 1)[1].split(",")
ids = args or sorted(x for x in os.listdir(os.path.join(V, "benign")) if os.path.isdir(os.path.join(V, "benign", x)))
ALL = ["C01", "C02", "C03", "C04", "C05", "C06", "C07", "C08", "C09", "C10", "C11", "C13", "C14", "C15", "C17", "C18", "C20"]
res_path = os.path.join(V, "benign", "RESULTS.json")
results = json.load(open(res_path)) if os.path.exists(res_path) else {}
for bid in ids:
    d = os.path.join(V, "benign", bid)
    if not os.path.exists(os.path.join(d, "patch.diff")):
        continue
    assert subprocess.run(["git", "-C", "/repo", "status", "--porcelain"], capture_output=True, text=True).stdout.strip() == "", "/repo is not clean"
    if subprocess.run(["git", "-C", "/repo", "apply", os.path.join(d, "patch.diff")]).returncode != 0:
        print(bid, "PATCH DOES NOT APPLY")
        continue
    out = {}
    ev_saved = {}
    for p in (props or ALL):
        evp = os.path.join(V, "evidence", p + ".json")
        if os.path.exists(evp):
            ev_saved[evp] = open(evp).read()
    try:
        for p in (props or ALL):
            c = subprocess.run([os.path.join(V, "check"), p, "--tier", "quick"], capture_output=True, text=True, cwd=V)
            viol = [l.split("obligation=")[1].split()[0] for l in c.stdout.splitlines() if l.startswith("VIOLATION")]
            und = [l.split("obligation=")[1].split()[0] for l in c.stdout.splitlines() if l.startswith("UNDECIDED")]
            out[p] = {"exit": c.returncode, "violations": viol, "undecided": und}
            print("%-6s %s exit=%d viol=%s und=%s" % (bid, p, c.returncode, viol, und[:3]), flush=True)
    finally:
        subprocess.run(["git", "-C", "/repo", "checkout", "--", "."], check=True)
        for evp, txt in ev_saved.items():
            open(evp, "w").write(txt)  # evidence files describe runs against /repo itself, never a modified tree
    results.setdefault(bid, {}).update(out)
    json.dump(results, open(res_path, "w"), indent=1)
