"""Engine V: run a Verus unit assembled from /repo and map per-function results to obligations."""
import os, re, shutil, time
import verus_unit as vu
from vlib import *

CANARY = """
// vacuity canary: must FAIL to verify. If it verifies, the assumptions of this unit are contradictory.
pub proof fn zz_canary_must_fail(%s)
    requires %s
    ensures false
{ }
"""


def run_unit(unit_name, canary=None, timeout=600):
    """Returns dict(status, functions{name: {success, ms}}, report, stderr, wall_s, assumptions, canary_ok, lost)."""
    vspec = os.path.join(VERIF, "contracts", "verus", unit_name + ".vspec")
    outdir = os.path.join(CACHE, "verus", unit_name + "-%d" % os.getpid())
    os.makedirs(outdir, exist_ok=True)
    res = {"unit": unit_name, "status": "undecided", "functions": {}, "report": None, "stderr": "", "lost": [],
           "assumptions": [], "canary_ok": None, "wall_s": 0.0, "smt_s": 0.0, "cmd": "verus %s.rs --output-json --time" % unit_name}
    t0 = time.time()
    try:
        lenient = False
        try:
            unit, text, rep = vu.assemble(REPO, vspec)
        except vu.LostAnchor as e:
            first = str(e)
            try:
                unit, text, rep = vu.assemble(REPO, vspec, lenient=True)
                lenient = True
            except vu.LostAnchor as e2:
                res["detail"] = "lost anchor: %s" % e2
                return res
            res["detail"] = "lost anchor (proof hint skipped): %s" % first
        res["report"] = rep
        res["lost"] = rep.get("lost", [])
        res["assumptions"] = vu.scan_assumptions(text)
        p = os.path.join(outdir, unit + ".rs")
        open(p, "w").write(text)
        r = vu.run_verus(p, timeout=timeout)
        res["stderr"] = re.sub(r'^\[rust_verify[^\n]*\n', '', r.get("stderr", ""), flags=re.M)
        res["verus_status"] = r["status"]
        res["smt_s"] = r.get("smt_ms", 0) / 1000.0
        res["version"] = r.get("version")
        for f in r["functions"]:
            name = f["function"].split("::", 1)[1] if "::" in f["function"] else f["function"]
            res["functions"][name] = {"success": bool(f["success"]), "ms": f.get("ms", 0), "rlimit": f.get("rlimit"), "mode": f.get("mode")}
        if r["status"] in ("verified", "failed"):
            res["status"] = r["status"]
        else:
            res["detail"] = "verus: %s" % r["status"]
        if canary and r["status"] == "verified":
            unit2, text2, _ = vu.assemble(REPO, vspec, lenient=lenient, extra_text=CANARY % canary)
            p2 = os.path.join(outdir, unit + "_canary.rs")
            open(p2, "w").write(text2)
            r2 = vu.run_verus(p2, timeout=timeout)
            bad = [f for f in r2["functions"] if f["function"].endswith("zz_canary_must_fail")]
            res["canary_ok"] = bool(bad) and not bad[0]["success"]
    finally:
        res["wall_s"] = time.time() - t0
        shutil.rmtree(outdir, ignore_errors=True)
    return res


def obligations(prop, unit_res, wanted, lost_sensitive=()):
    """wanted: list of (obligation suffix, verus function name, [repo functions under contract], description).
    A function that fails while one of its proof-hint anchors is lost is reported UNDECIDED (the failure may
    be a missing hint); the caller may upgrade it to FAILED when a concrete counterexample is found."""
    obs = []
    backend = "verus %s / z3" % (unit_res.get("version") or "")
    for suffix, fn, repo_fns, desc in wanted:
        oid = "%s.%s" % (prop, suffix)
        f = unit_res["functions"].get(fn)
        if unit_res["status"] == "undecided" or f is None:
            obs.append(Ob(oid, "V", "proof", backend, UNDECIDED, 0, unit_res.get("detail", "function %s not reported by verus" % fn), functions=repo_fns))
            continue
        if f["success"]:
            obs.append(Ob(oid, "V", "proof", backend, DISCHARGED, f["ms"] / 1000.0, desc, functions=repo_fns))
        else:
            lost_here = [l for l in unit_res["lost"] if any(rf.split("::")[-1] in l for rf in repo_fns)]
            if lost_here:
                obs.append(Ob(oid, "V", "proof", backend, UNDECIDED, f["ms"] / 1000.0,
                              "verus does not prove %s, but a proof-hint anchor is lost (%s): cannot tell a missing hint from a violation" % (fn, "; ".join(lost_here)),
                              functions=repo_fns, signature="verus: %s fails" % fn))
            else:
                obs.append(Ob(oid, "V", "proof", backend, FAILED, f["ms"] / 1000.0, "%s — verus: obligation of %s not discharged" % (desc, fn),
                              functions=repo_fns, signature="verus: %s fails" % fn))
    return obs
