#!/usr/bin/env python3
"""Engine V: assemble a single-file Verus unit from items copied BY SPAN out of /repo, with the
annotation splices a .vspec side-car prescribes, run verus on it and report per-function results.

Side-car grammar (line oriented, sections start with '@@'):

  @@unit <name>
  @@cfg feature=crypto,...            features considered ON when evaluating #[cfg(feature = "..")]
  @@text                              verbatim Verus text (spec fns, lemmas, trusted impls) at this position
  @@item <file> :: <item path>        copy that item (attributes dropped and reported)
  @@open <file> :: <impl path>        emit the impl header line `impl … {`; following @@fn belong to it
  @@fn <name>                         copy fn <name> of the open impl (or `@@fn <file> :: fn name` for a free fn)
      @@ret <name>                    name the return value: `-> T` becomes `-> (name: T)`
      @@spec                          text spliced between signature and body
      @@closure <n>                   replacement head for the n-th closure of the fn (body gets braces)
      @@before-stmt <n> / @@after-stmt <n>   proof text before/after the n-th top-level statement
      @@loop <n>                      text spliced before the body of the n-th loop (invariants)
  @@assoc <name>                      copy the associated type <name> of the open impl
  @@close                             closes the impl
A section that cannot be applied (item / closure / statement / loop not found) raises LostAnchor,
which the driver reports as UNDECIDED (exit 2), never as a violation.
"""
import hashlib, json, os, re, subprocess, sys, time

VX = os.environ.get("VX_BIN", "/verif/.cache/vx-target/release/vx")


class LostAnchor(Exception):
    pass


_index_cache = {}


def index(path):
    if path not in _index_cache:
        r = subprocess.run([VX, "index", path], capture_output=True, text=True)
        if r.returncode != 0:
            raise LostAnchor("cannot parse %s: %s" % (path, r.stderr.strip()))
        _index_cache[path] = (json.loads(r.stdout), open(path, "rb").read())
    return _index_cache[path]


def find_item(repo, file, path):
    idx, src = index(os.path.join(repo, file))
    for it in idx["items"]:
        if it["path"] == path:
            return it, src
    raise LostAnchor("item '%s' not found in %s" % (path, file))


def find_fn(repo, file, impl_path, name):
    idx, src = index(os.path.join(repo, file))
    if impl_path is None:
        for it in idx["items"]:
            if it["kind"] == "fn" and it["name"] == name:
                return it, src
        raise LostAnchor("fn '%s' not found in %s" % (name, file))
    for it in idx["items"]:
        if it["kind"] == "impl" and it["path"] == impl_path:
            for f in it["items"]:
                if f["kind"] == "fn" and f["name"] == name:
                    return f, src
    raise LostAnchor("fn '%s' of '%s' not found in %s" % (name, impl_path, file))


def cfg_on(text, features):
    """Evaluate a #[cfg(...)] attribute over feature flags only. Returns True/False/None(unknown)."""
    m = re.match(r'#\s*\[\s*cfg\s*\((.*)\)\s*\]$', text.strip(), re.S)
    if not m:
        return None
    e = m.group(1).strip()

    def ev(e):
        e = e.strip()
        m = re.match(r'feature\s*=\s*"([^"]+)"$', e)
        if m:
            return m.group(1) in features
        for fn in ("not", "all", "any"):
            if e.startswith(fn) and e[len(fn):].lstrip().startswith("("):
                inner = e[e.index("(") + 1:e.rindex(")")]
                parts, depth, cur = [], 0, ""
                for ch in inner:
                    if ch == "(":
                        depth += 1
                    if ch == ")":
                        depth -= 1
                    if ch == "," and depth == 0:
                        parts.append(cur)
                        cur = ""
                    else:
                        cur += ch
                if cur.strip():
                    parts.append(cur)
                vals = [ev(p) for p in parts]
                if any(v is None for v in vals):
                    return None
                if fn == "not":
                    return not vals[0]
                if fn == "all":
                    return all(vals)
                return any(vals)
        if e == "test":
            return False
        return None

    return ev(e)


def parse_vspec(path):
    secs, cur = [], None
    for line in open(path):
        if line.startswith("@@"):
            parts = line[2:].strip().split(None, 1)
            cur = {"kind": parts[0], "arg": parts[1].strip() if len(parts) > 1 else "", "text": ""}
            secs.append(cur)
        elif cur is not None:
            cur["text"] += line
    return secs


def apply_splices(src, start, end, splices):
    """splices: list of (offset, delete_len, insert_text); offsets absolute in src."""
    out, pos = [], start
    for off, dl, ins in sorted(splices, key=lambda s: s[0]):
        if off < pos or off > end:
            raise LostAnchor("overlapping or out-of-range splice")
        out.append(src[pos:off])
        out.append(ins.encode())
        pos = off + dl
    out.append(src[pos:end])
    return b"".join(out)


def strip_cfg_regions(fn_item, src, features, report):
    """Inside a fn body: drop statements / match arms whose #[cfg(feature..)] is off, and remove the
    attribute text of those that are on.  Implemented textually on attribute occurrences inside the fn span."""
    return []


def assemble(repo, vspec_path, lenient=False, extra_text=""):
    """lenient: a closure / statement / loop anchor that no longer exists is skipped (recorded in
    report['lost']) instead of aborting; missing items and functions always abort."""
    secs = parse_vspec(vspec_path)
    out = []
    report = {"items": [], "dropped": [], "splices": 0, "features": [], "lost": []}
    features = set()
    open_impl = None  # (file, impl_path)
    i = 0
    unit = os.path.basename(vspec_path)
    while i < len(secs):
        s = secs[i]
        k = s["kind"]
        if k == "unit":
            unit = s["arg"]
        elif k == "cfg":
            features = set(x.split("=", 1)[1] for x in s["arg"].split(",") if x.startswith("feature="))
            report["features"] = sorted(features)
        elif k == "text":
            out.append(s["text"])
        elif k == "item":
            file, path = [x.strip() for x in s["arg"].split(" :: ", 1)]
            expect = None
            if " :: derives " in path:
                path, expect = [x.strip() for x in path.split(" :: derives ", 1)]
            it, src = find_item(repo, file, path)
            for a in it["attrs"]:
                report["dropped"].append({"item": path, "attr": a["kind"], "text": a["text"][:80]})
            if expect is not None:
                have = set()
                for a in it["attrs"]:
                    if a["kind"] == "derive":
                        have |= set(x.strip() for x in re.sub(r'^#\s*\[\s*derive\s*\(|\)\s*\]$', '', a["text"]).split(","))
                want = set(x.strip() for x in expect.split(","))
                if not want <= have:
                    raise LostAnchor("%s no longer derives %s (trusted structural impls assume the derived ones)" % (path, sorted(want - have)))
            start, end = it["start"], it["end"]
            splices = []
            # drop attributes on enum variants (docs, cfg evaluated)
            for v in it.get("variants", []):
                drop_variant = False
                for a in v["attrs"]:
                    if a["kind"] == "cfg":
                        on = cfg_on(a["text"], features)
                        if on is None:
                            raise LostAnchor("cannot evaluate %s on variant %s" % (a["text"], v["name"]))
                        if not on:
                            drop_variant = True
                        report["dropped"].append({"item": path + "::" + v["name"], "attr": "cfg(%s)" % ("on" if on else "off"), "text": a["text"]})
                if drop_variant:
                    # remove the whole variant incl. trailing comma
                    e = v["end"]
                    while src[e:e + 1] in (b",", b" ", b"\t"):
                        e += 1
                    splices.append((v["attrs"][0]["start"] if v["attrs"] else v["start"], e - (v["attrs"][0]["start"] if v["attrs"] else v["start"]), ""))
                else:
                    for a in v["attrs"]:
                        if a["kind"] in ("cfg",):
                            splices.append((a["start"], a["end"] - a["start"], ""))
            body = apply_splices(src, start, end, splices)
            raw = src[start:end]
            report["items"].append({"file": file, "item": path, "line": it.get("line"), "sha256": hashlib.sha256(raw).hexdigest()[:16], "bytes": len(raw)})
            pre = s["text"].strip()
            out.append((pre + "\n" if pre else "") + body.decode() + "\n")
        elif k == "open":
            file, path = [x.strip() for x in s["arg"].split(" :: ", 1)]
            it, src = find_item(repo, file, path)
            open_impl = (file, path)
            out.append(src[it["start"]:it["brace_start"] + 1].decode() + "\n" + s["text"])
        elif k == "assoc":
            if open_impl is None:
                raise LostAnchor("@@assoc outside @@open")
            it, src = find_item(repo, open_impl[0], open_impl[1])
            hit = [x for x in it["items"] if x["kind"] == "type" and x["name"] == s["arg"].strip()]
            if not hit:
                raise LostAnchor("associated type %s not found in %s" % (s["arg"], open_impl[1]))
            out.append(src[hit[0]["start"]:hit[0]["end"]].decode() + "\n")
        elif k == "close":
            open_impl = None
            out.append("}\n" + s["text"])
        elif k == "fn":
            if " :: " in s["arg"]:
                parts = [x.strip() for x in s["arg"].split(" :: ")]
                file, name = parts[0], parts[-1].replace("fn ", "").strip()
                f, src = find_fn(repo, file, parts[1] if len(parts) == 3 else None, name)
                where = file
            else:
                if open_impl is None:
                    raise LostAnchor("@@fn %s outside @@open" % s["arg"])
                name = s["arg"].strip()
                f, src = find_fn(repo, open_impl[0], open_impl[1], name)
                where = open_impl[0]
            for a in f["attrs"]:
                report["dropped"].append({"item": f["path"], "attr": a["kind"], "text": a["text"][:80]})
            splices = []
            j = i + 1
            while j < len(secs) and secs[j]["kind"] in ("spec", "closure", "before-stmt", "after-stmt", "loop", "ret"):
                t = secs[j]
                if t["kind"] == "spec":
                    splices.append((f["body_start"], 0, "\n" + t["text"].rstrip() + "\n"))
                elif t["kind"] == "ret":
                    # name the return value: `-> T` becomes `-> (name: T)` (Verus syntax; annotation only)
                    if not f.get("ret"):
                        raise LostAnchor("fn %s has no return type to name" % f["path"])
                    splices.append((f["ret"]["start"], 0, "(%s: " % t["arg"].strip()))
                    splices.append((f["ret"]["end"], 0, ")"))
                elif t["kind"] == "closure":
                    n = int(t["arg"])
                    if n >= len(f["closures"]):
                        if lenient:
                            report["lost"].append("closure %d of %s" % (n, f["path"]))
                            j += 1
                            continue
                        raise LostAnchor("closure %d of %s not found" % (n, f["path"]))
                    c = f["closures"][n]
                    head = t["text"].strip()
                    # $1, $2 … stand for the closure's own parameter names (so renaming them does not matter)
                    for pi, pn in enumerate(c.get("params", []), 1):
                        head = head.replace("$%d" % pi, pn.replace("mut ", "").strip())
                    splices.append((c["start"], c["head_end"] - c["start"], head + " "))
                    if not c["body_is_block"]:
                        splices.append((c["body_start"], 0, "{ "))
                        splices.append((c["body_end"], 0, " }"))
                elif t["kind"] in ("before-stmt", "after-stmt"):
                    n = int(t["arg"])
                    if n >= len(f["stmts"]):
                        if lenient:
                            report["lost"].append("statement %d of %s" % (n, f["path"]))
                            j += 1
                            continue
                        raise LostAnchor("statement %d of %s not found" % (n, f["path"]))
                    st = f["stmts"][n]
                    off = st["start"] if t["kind"] == "before-stmt" else st["end"]
                    splices.append((off, 0, "\n" + t["text"].rstrip() + "\n"))
                elif t["kind"] == "loop":
                    n = int(t["arg"])
                    if n >= len(f["loops"]):
                        if lenient:
                            report["lost"].append("loop %d of %s" % (n, f["path"]))
                            j += 1
                            continue
                        raise LostAnchor("loop %d of %s not found" % (n, f["path"]))
                    splices.append((f["loops"][n]["body_start"], 0, "\n" + t["text"].rstrip() + "\n"))
                report["splices"] += 1
                j += 1
            body = apply_splices(src, f["start"], f["end"], splices)
            raw = src[f["start"]:f["end"]]
            report["items"].append({"file": where, "item": f["path"], "line": f.get("line"), "sha256": hashlib.sha256(raw).hexdigest()[:16], "bytes": len(raw),
                                    "closures": len(f["closures"]), "loops": len(f["loops"]), "stmts": len(f["stmts"])})
            out.append(s["text"] + body.decode() + "\n")
            i = j - 1
        else:
            raise LostAnchor("unknown side-car section @@%s" % k)
        i += 1
    text = "".join(out)
    if extra_text:
        k = text.rindex("} // verus!")
        text = text[:k] + extra_text + "\n" + text[k:]
    return unit, text, report


ASSUME_PAT = re.compile(r'\b(assume\s*\(|admit\s*\(|external_body|assume_specification|external_fn_specification|#\[verifier::external)')


def scan_assumptions(text):
    found = []
    for n, line in enumerate(text.splitlines(), 1):
        if ASSUME_PAT.search(line) and not line.strip().startswith("//"):
            found.append("%d: %s" % (n, line.strip()[:140]))
    return found


def run_verus(rs_path, timeout=600, extra=()):
    t0 = time.time()
    try:
        r = subprocess.run(["verus", rs_path, "--output-json", "--time", "--multiple-errors", "20"] + list(extra),
                           capture_output=True, text=True, timeout=timeout, cwd=os.path.dirname(rs_path))
    except subprocess.TimeoutExpired:
        return {"status": "timeout", "wall_s": time.time() - t0, "functions": [], "stderr": "timeout"}
    wall = time.time() - t0
    res = {"status": "error", "wall_s": wall, "functions": [], "stderr": r.stderr[-6000:], "verified": 0, "errors": 0}
    try:
        d = json.loads(r.stdout)
    except Exception:
        res["stderr"] = (r.stdout[-2000:] + "\n" + r.stderr[-6000:])
        return res
    vr = d.get("verification-results", {})
    res["verified"] = vr.get("verified", 0)
    res["errors"] = vr.get("errors", 0)
    res["smt_ms"] = d.get("times-ms", {}).get("smt", {}).get("smt-run", 0)
    for m in d.get("times-ms", {}).get("smt", {}).get("smt-run-module-times", []):
        for f in m.get("function-breakdown", []):
            res["functions"].append({"function": f["function"], "mode": f.get("mode:"), "ms": f.get("time"), "rlimit": f.get("rlimit"), "success": f.get("success")})
    if vr.get("encountered-vir-error") or (vr.get("encountered-error") and not res["functions"]):
        res["status"] = "tool-error"
    elif vr.get("success"):
        res["status"] = "verified"
    else:
        res["status"] = "failed"
    res["version"] = d.get("verus", {}).get("version")
    return res


if __name__ == "__main__":
    repo, vspec, outdir = sys.argv[1], sys.argv[2], sys.argv[3]
    unit, text, rep = assemble(repo, vspec)
    os.makedirs(outdir, exist_ok=True)
    p = os.path.join(outdir, unit + ".rs")
    open(p, "w").write(text)
    r = run_verus(p)
    print(json.dumps({"report": rep, "result": {k: v for k, v in r.items() if k != "stderr"}}, indent=1))
    if r["status"] != "verified":
        print(r["stderr"])
