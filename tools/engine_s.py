"""Engine S: emission-summary contracts.

The control skeleton of every writer function (extracted by `vx skel` from /repo's current source) is
evaluated symbolically into a *normal form*: a tree of emission nodes (cons / tagged / prim / call /
closure / for / ret) each carrying a guard — a propositional formula over canonical atoms of the
function's inputs.  `if` / `if let` / `match` / early `return` / `let` are eliminated (guards and
substitution), so local names and the way a condition is split over statements do not matter.
The normal form is compared with the function's summary contract (contracts/summary/*.sum: the
same tree written down from RFC 5280 / 2986 and the property text) — structure and arguments must
agree and every pair of guards must be equivalent (z3, under the background theory of the atoms).
On top of that, property-level verification conditions are generated from the normal form
(wrapper present iff a child is emitted, an extension OID is written at most once, criticality
constants, refusal guards, call-site arguments).
Anything the evaluator does not recognise makes the unit UNDECIDED, never a violation.
"""
import json, os, re, subprocess, time
import z3
from vlib import *


class Undecided(Exception):
    pass


# ----------------------------------------------------------------------------- expressions
IDENT = re.compile(r'^[A-Za-z_][A-Za-z0-9_]*$')
DROP_METHODS = ("clone", "to_owned", "to_vec", "into", "as_slice", "iter", "into_iter", "as_ref_slice")


TOKEN = re.compile(r"""
    b?"(?:[^"\\]|\\.)*"            # string literal
  | b?'(?:[^'\\]|\\.)'             # char literal
  | '[A-Za-z_][A-Za-z0-9_]*           # lifetime
  | [A-Za-z_][A-Za-z0-9_]*            # identifier / keyword
  | [0-9][A-Za-z0-9_]*(?:\.[0-9][A-Za-z0-9_]*)?   # number
  | ::|->|=>|==|!=|<=|>=|&&|\|\||\.\.=|\.\.|<<|>>
  | [^\sA-Za-z0-9_]                   # any other single character
""", re.X)


def toks(s):
    return TOKEN.findall(s)


def subst(tokens, env):
    out = []
    n = len(tokens)
    stack = []
    for i, t in enumerate(tokens):
        if t in ("(", "[", "{"):
            stack.append(t)
        elif t in (")", "]", "}") and stack:
            stack.pop()
        if IDENT.match(t) and t in env:
            prev = tokens[i - 1] if i > 0 else ""
            nxt = tokens[i + 1] if i + 1 < n else ""
            if prev in (".", "::") or nxt == "::" or (nxt == ":" and prev in ("{", ",")):
                out.append(t)
            elif stack and stack[-1] == "{" and prev in ("{", ",") and nxt in (",", "}") and i >= 2 and _struct_lit(tokens, i):
                out.append(t + " : (" + env[t] + ")")      # field shorthand of a struct literal
            else:
                out.append("(" + env[t] + ")")
        else:
            out.append(t)
    return out


def _struct_lit(tokens, i):
    """is token i inside `Path { … }` (struct literal) rather than a block?"""
    depth = 0
    j = i - 1
    while j >= 0:
        if tokens[j] in (")", "]", "}"):
            depth += 1
        elif tokens[j] in ("(", "[", "{"):
            if depth == 0:
                return tokens[j] == "{" and j > 0 and IDENT.match(tokens[j - 1]) is not None and tokens[j - 1][0].isupper()
            depth -= 1
        j -= 1
    return False


def project_struct_literals(t):
    """Name { a : X , b : Y } . b  ->  ( Y )"""
    changed = True
    while changed:
        changed = False
        for i, x in enumerate(t):
            if x == "{" and i > 0 and IDENT.match(t[i - 1]) and t[i - 1][0].isupper():
                depth, j = 0, i
                while j < len(t):
                    if t[j] in ("(", "[", "{"):
                        depth += 1
                    elif t[j] in (")", "]", "}"):
                        depth -= 1
                        if depth == 0:
                            break
                    j += 1
                if j + 2 < len(t) and t[j + 1] == "." and IDENT.match(t[j + 2]) and not (j + 3 < len(t) and t[j + 3] == "("):
                    field = t[j + 2]
                    body = " ".join(t[i + 1:j])
                    for f in split_top(body):
                        ft = toks(f)
                        if len(ft) >= 3 and ft[0] == field and ft[1] == ":":
                            start = i - 1
                            while start >= 2 and t[start - 1] == "::":
                                start -= 2
                            t = t[:start] + ["("] + ft[2:] + [")"] + t[j + 3:]
                            changed = True
                            break
                    if changed:
                        break
    return t


def canon(expr, env=None):
    """Canonical text of an expression: variables replaced by their definitions, reference / deref /
    clone noise dropped, redundant parentheses removed, no blanks."""
    t = toks(expr)
    if env:
        t = toks(" ".join(subst(t, env)))
    # drop borrow / deref prefixes:  & x, &mut x, * x, ref x  at the start of an operand
    out = []
    for i, x in enumerate(t):
        prev = out[-1] if out else None
        operand_start = prev is None or prev in ("(", ",", "=", "|", "{", "[", "!", "&&", "||", "==", "!=", "=>", "return", ":")
        if x in ("&", "*") and operand_start:
            continue
        if x == "mut" and (i > 0 and t[i - 1] == "&"):
            continue
        if x == "ref" and operand_start:
            continue
        out.append(x)
    t = out
    # drop identity method calls  .clone() .to_owned() ...
    out = []
    i = 0
    while i < len(t):
        if t[i] == "." and i + 3 < len(t) + 0 and t[i + 1] in DROP_METHODS and t[i + 2] == "(" and t[i + 3] == ")":
            i += 4
            continue
        out.append(t[i])
        i += 1
    t = out
    # strip redundant parentheses: a group that is not a call / macro argument list and contains no
    # top-level operator or comma
    changed = True
    while changed:
        changed = False
        stack = []
        for i, x in enumerate(t):
            if x == "(":
                stack.append(i)
            elif x == ")" and stack:
                j = stack.pop()
                prev = t[j - 1] if j > 0 else None
                is_call = prev is not None and (IDENT.match(prev) and prev not in ("return", "in", "if", "match") or prev in (")", "]", ">", "!"))
                if is_call:
                    continue
                inner = t[j + 1:i]
                depth = 0
                simple = len(inner) > 0
                # a parenthesised struct literal  ( Path { … } )
                if len(inner) >= 3 and inner[-1] == "}" and "{" in inner:
                    k = inner.index("{")
                    if all(IDENT.match(y) or y == "::" for y in inner[:k]) and k > 0:
                        d2, closes_at_end = 0, True
                        for q in range(k, len(inner)):
                            if inner[q] in ("(", "[", "{"):
                                d2 += 1
                            elif inner[q] in (")", "]", "}"):
                                d2 -= 1
                                if d2 == 0 and q != len(inner) - 1:
                                    closes_at_end = False
                                    break
                        if closes_at_end:
                            t = t[:j] + inner + t[i + 1:]
                            changed = True
                            break
                for y in inner:
                    if y in ("(", "[", "{"):
                        depth += 1
                    elif y in (")", "]", "}"):
                        depth -= 1
                    elif depth == 0 and not (IDENT.match(y) or y in (".", "::", "#") or re.match(r'^[0-9]', y)):
                        simple = False
                        break
                if simple:
                    t = t[:j] + inner + t[i + 1:]
                    changed = True
                    break
    t2 = project_struct_literals(list(t))
    if t2 != t:
        return canon(" ".join(t2))
    return "".join(t)


def split_top(s, sep=","):
    """split an expression (text) at top-level separator tokens; returns list of texts"""
    parts, depth, cur = [], 0, []
    for t in toks(s):
        if t in ("(", "[", "{"):
            depth += 1
        elif t in (")", "]", "}"):
            depth -= 1
        if t == sep and depth == 0:
            parts.append(" ".join(cur))
            cur = []
        else:
            cur.append(t)
    if cur:
        parts.append(" ".join(cur))
    return parts


# ----------------------------------------------------------------------------- atoms and theory
class Atoms:
    def __init__(self, enums, option_exprs=()):
        self.atoms = {}
        self.enums = enums           # enum name -> [variant names]
        self.is_atoms = {}           # scrutinee -> {variant: atom}
        self.enum_of = {}            # scrutinee -> enum name
        self.option_exprs = set(option_exprs)

    def A(self, name):
        if name not in self.atoms:
            self.atoms[name] = z3.Bool(name)
        return self.atoms[name]

    def some(self, x):
        return self.A("some:" + x)

    def empty(self, x):
        return self.A("empty:" + x)

    def is_variant(self, x, enum, variant):
        self.is_atoms.setdefault(x, {})
        if enum:
            self.enum_of[x] = enum
        if variant not in self.is_atoms[x]:
            self.is_atoms[x][variant] = self.A("is:%s:%s" % (x, variant))
        return self.is_atoms[x][variant]

    def theory(self):
        th = []
        for x, vs in self.is_atoms.items():
            atoms = list(vs.values())
            enum = self.enum_of.get(x)
            if enum and enum in self.enums:
                for v in self.enums[enum]:
                    if v not in vs:
                        atoms.append(self.is_variant(x, enum, v))
                th.append(z3.PbEq([(a, 1) for a in atoms], 1))
            else:
                th.append(z3.PbLe([(a, 1) for a in atoms], 1))
        return th


def strip_parens(s):
    t = toks(s)
    while len(t) >= 2 and t[0] == "(" and t[-1] == ")":
        depth = 0
        ok = True
        for i, x in enumerate(t):
            if x == "(":
                depth += 1
            elif x == ")":
                depth -= 1
                if depth == 0 and i != len(t) - 1:
                    ok = False
                    break
        if not ok:
            break
        t = t[1:-1]
    return " ".join(t)


class Eval:
    """symbolic evaluation of one unit"""

    def __init__(self, atoms, features, types=None):
        self.at = atoms
        self.features = features
        self.types = types or {}
        self.mutable = set()

    # ---- patterns
    def pat_bind(self, pat, value, env):
        """bind the variables of an irrefutable-or-refutable pattern to projections of `value`;
        returns the condition under which the pattern matches"""
        t = toks(pat.strip())
        while True:
            while t and t[0] in ("&", "ref", "mut"):
                t = t[1:]
            # a parenthesised pattern without a top-level comma is just grouping
            if len(t) >= 2 and t[0] == "(" and t[-1] == ")" and toks(strip_parens(" ".join(t))) != t and len(split_top(" ".join(t[1:-1]))) == 1 and t[1:-1].count(",") == 0:
                t = t[1:-1]
                continue
            break
        p = " ".join(t)
        if p == "_" or p == "":
            return z3.BoolVal(True)
        alts = split_top(p, "|")
        if len(alts) > 1:
            conds, envs = [], []
            for a in alts:
                e2 = {}
                conds.append(self.pat_bind(a, value, e2))
                envs.append(e2)
            for v in envs[0]:
                vals = [e.get(v) for e in envs]
                env[v] = vals[0] if all(x == vals[0] for x in vals) else "alt(" + "|".join(str(x) for x in vals) + ")"
            return z3.Or(*conds)
        if IDENT.match(p):
            if p[0].isupper():   # unit-like constant / variant without path
                return self.at.is_variant(value, None, p)
            env[p] = value
            return z3.BoolVal(True)
        if t[0] == "(" and t[-1] == ")":   # tuple
            inner = split_top(" ".join(t[1:-1]))
            cs = [self.pat_bind(x, "%s.%d" % (value, i), env) for i, x in enumerate(inner)]
            return z3.And(*cs) if cs else z3.BoolVal(True)
        # path [ ( body ) | { body } ]
        j = 0
        path = []
        while j < len(t) and IDENT.match(t[j]):
            path.append(t[j])
            if j + 1 < len(t) and t[j + 1] == "::":
                j += 2
            else:
                j += 1
                break
        if not path or (j < len(t) and t[j] not in ("(", "{")) or (j < len(t) and t[-1] not in (")", "}")):
            raise Undecided("pattern not understood: " + pat)

        class M:
            pass
        m = M()
        opener = t[j] if j < len(t) else None
        body_text = " ".join(t[j + 1:-1]) if j < len(t) else None
        m.group = lambda k: {1: " :: ".join(path), 2: opener, 3: body_text}[k]
        name = path[-1]
        enum = path[-2] if len(path) > 1 else None
        body = m.group(3)
        if name == "Some" and enum is None:
            c = self.at.some(value)
            if body:
                c = z3.And(c, self.pat_bind(body, "unwrap(%s)" % value, env))
            return c
        if name == "None" and enum is None:
            return z3.Not(self.at.some(value))
        if m.group(2) == "{":   # struct pattern: Name { a, b: pat, .. }
            cs = []
            is_enum_variant = enum is not None and enum != "Self" and enum in self.at.enums
            base = value
            if is_enum_variant:
                cs.append(self.at.is_variant(value, enum, name))
                base = "%s#%s" % (value, name)
            for f in split_top(body):
                f = f.strip()
                if f in ("..", ""):
                    continue
                if " : " in f:
                    fn, fp = f.split(" : ", 1)
                    cs.append(self.pat_bind(fp, "%s.%s" % (base, fn.strip()), env))
                else:
                    ft = [x for x in toks(f) if x not in ("ref", "mut")]
                    env[ft[0]] = "%s.%s" % (base, ft[0])
            return z3.And(*cs) if cs else z3.BoolVal(True)
        # tuple variant / unit variant
        c = self.at.is_variant(value, enum, name)
        if body:
            inner = split_top(body)
            cs = [c]
            for i, x in enumerate(inner):
                cs.append(self.pat_bind(x, "%s#%s.%d" % (value, name, i), env))
            c = z3.And(*cs)
        return c

    # ---- conditions
    def cond(self, c, env, benv, bind_env=None):
        if "not" in c:
            return z3.Not(self.cond(c["not"], env, benv))
        if "or" in c:
            return z3.Or(*[self.cond(x, env, benv) for x in c["or"]])
        if "and" in c:
            return z3.And(*[self.cond(x, env, benv, bind_env) for x in c["and"]])
        if "let" in c:
            val = canon(c["let"]["expr"], env)
            target = bind_env if bind_env is not None else {}
            return self.pat_bind(c["let"]["pat"], val, target)
        return self.atom(c["atom"], env, benv)

    def atom(self, text, env, benv):
        t = strip_parens(text)
        tk = toks(t)
        if len(tk) == 1 and tk[0] in benv:
            return benv[tk[0]]
        if t == "true":
            return z3.BoolVal(True)
        if t == "false":
            return z3.BoolVal(False)
        # matches!(X, PAT [if G])
        if len(tk) > 3 and tk[0] == "matches" and tk[1] == "!" and tk[2] == "(" and tk[-1] == ")":
            parts = split_top(" ".join(tk[3:-1]))
            x = canon(parts[0], env)
            rest = " , ".join(parts[1:])
            guard = None
            rt = toks(rest)
            if "if" in rt:
                k = rt.index("if")
                rest, guard = " ".join(rt[:k]), " ".join(rt[k + 1:])
            e2 = dict(env)
            c = self.pat_bind(rest, x, e2)
            if guard:
                c = z3.And(c, self.cond(self.parse_cond(guard), e2, benv))
            return c
        # X.is_some() / X.is_none() / X.is_empty()
        if len(tk) > 4 and tk[-1] == ")" and tk[-2] == "(" and tk[-4] == "." and tk[-3] in ("is_some", "is_none", "is_empty"):
            x = canon(" ".join(tk[:-4]), env)
            if tk[-3] == "is_some":
                return self.at.some(x)
            if tk[-3] == "is_none":
                return z3.Not(self.at.some(x))
            return self.at.empty(x)
        # X.iter().any(|v| BODY) on an Option
        if "any" in tk:
            k = tk.index("any")
            if k >= 5 and tk[k - 1] == "." and tk[k - 4:k - 1] == ["iter", "(", ")"] and tk[k - 5] == "." and tk[k + 1] == "(" and tk[k + 2] == "|" and tk[k + 4] == "|" and tk[-1] == ")":
                x = canon(" ".join(tk[:k - 5]), env)
                if x in self.at.option_exprs:
                    e2 = dict(env)
                    e2[tk[k + 3]] = "unwrap(%s)" % x
                    return z3.And(self.at.some(x), self.cond(self.parse_cond(" ".join(tk[k + 5:-1])), e2, benv))
        # X == Enum::V  /  X != Enum::V
        for op in ("==", "!="):
            if op in tk:
                k = tk.index(op)
                rhs = tk[k + 1:]
                if len(rhs) >= 3 and all(IDENT.match(r) or r == "::" for r in rhs) and rhs[-2] == "::" and rhs[-1][0].isupper():
                    a = self.at.is_variant(canon(" ".join(tk[:k]), env), rhs[-3], rhs[-1])
                    return a if op == "==" else z3.Not(a)
        return self.at.A("atom:" + canon(t, env))

    def parse_cond(self, text):
        """parse a boolean expression given as token text into the cond-tree form (only !, &&, ||, parentheses)"""
        tk = toks(text)
        pos = [0]

        def peek():
            return tk[pos[0]] if pos[0] < len(tk) else None

        def parse_or():
            l = parse_and()
            while peek() == "||":
                pos[0] += 1
                r = parse_and()
                l = {"or": [l, r]}
            return l

        def parse_and():
            l = parse_not()
            while peek() == "&&":
                pos[0] += 1
                r = parse_not()
                l = {"and": [l, r]}
            return l

        def parse_not():
            if peek() == "!":
                # `!` directly followed by `(`/ident: logical not (macro bang never starts a term)
                pos[0] += 1
                return {"not": parse_not()}
            return parse_term()

        def parse_term():
            # collect tokens up to a top-level && or || or unmatched )
            depth = 0
            start = pos[0]
            if peek() == "(":
                # parenthesised boolean sub-expression?  try it
                save = pos[0]
                pos[0] += 1
                inner = parse_or()
                if peek() == ")":
                    pos[0] += 1
                    if peek() in (None, "&&", "||", ")"):
                        return inner
                pos[0] = save
            while pos[0] < len(tk):
                x = tk[pos[0]]
                if x in ("(", "[", "{"):
                    depth += 1
                elif x in (")", "]", "}"):
                    if depth == 0:
                        break
                    depth -= 1
                elif x in ("&&", "||") and depth == 0:
                    break
                pos[0] += 1
            return {"atom": " ".join(tk[start:pos[0]])}

        r = parse_or()
        return r

    # ---- cfg
    def cfg_on(self, pred):
        import verus_unit as vu
        v = vu.cfg_on("#[%s]" % pred.replace(" ", ""), self.features)
        if v is None:
            raise Undecided("cannot evaluate cfg: " + pred)
        return v

    # ---- nodes
    def walk(self, nodes, env, benv, pc):
        """returns (normal-form nodes, condition under which control flows past `nodes`)"""
        out = []
        alive = pc
        env = dict(env)
        benv = dict(benv)
        for n in nodes:
            k = n["k"]
            g = alive
            if k == "let":
                if n.get("cfg") and not self.cfg_on(n["cfg"]):
                    continue
                pat = n["pat"]
                tp = [x for x in toks(pat) if x not in ("mut", "ref")]
                if n.get("skel"):
                    nf, _ = self.walk(n["skel"], env, benv, z3.BoolVal(True))
                    val = "der{" + ";".join(render(x, flat=True) for x in nf) + "}"
                    if n["expr"].rstrip().endswith("?"):
                        # fallible constructor bound by let: the skeleton is part of the emission
                        for x in nf:
                            x["g"] = z3.And(g, x["g"])
                        out.extend(nf)
                else:
                    val = canon(n["expr"], env)
                if len(tp) == 1 and IDENT.match(tp[0]):
                    env[tp[0]] = val
                    if n.get("mutable"):
                        self.mutable.add(tp[0])
                    # boolean-ish definitions are kept as formulas as well
                    try:
                        f = self.cond(n["cond"], env, benv)
                        simple = "atom" in n["cond"] and not re.search(r'is_empty|is_some|is_none|matches\s*!|==|!=|^true$|^false$', n["cond"]["atom"])
                        if not simple:
                            benv[tp[0]] = f
                    except Undecided:
                        pass
                elif pat.strip() == "_":
                    pass
                else:
                    self.pat_bind(pat, val, env)
            elif k == "stmt" or k == "macro":
                st = toks(n["text"])
                touched = [v for v in self.mutable if v in st and v in env]
                for v in touched:
                    e2 = dict(env)
                    e2[v] = "$"
                    env[v] = "upd(%s|%s)" % (env[v], canon(n["text"], e2))
                out.append({"g": g, "kind": "stmt", "attrs": (canon(n["text"], env) if not touched else "update:" + ",".join(touched),), "children": [], "line": n.get("line")})
            elif k == "prim":
                out.append({"g": g, "kind": "prim", "attrs": (n["method"],) + tuple(canon(a, env) for a in n["args"]), "children": [], "line": n.get("line")})
            elif k == "cons":
                ch, _ = self.walk(n["body"], env, benv, z3.BoolVal(True))
                out.append({"g": g, "kind": "cons", "attrs": (n["kind"],), "children": ch, "line": n.get("line")})
            elif k == "tagged":
                ch, _ = self.walk(n["body"], env, benv, z3.BoolVal(True))
                out.append({"g": g, "kind": "tagged", "attrs": ("expl" if n["explicit"] else "impl", canon(n["tag"], env)), "children": ch, "line": n.get("line")})
            elif k == "call":
                args, children = [], []
                for a in n["args"]:
                    if "w" in a:
                        args.append("@w")
                    elif "c" in a:
                        e2 = dict(env)
                        for p in a["params"]:
                            e2.pop(p, None)
                        ch, _ = self.walk(a["c"], e2, benv, z3.BoolVal(True))
                        args.append("<closure>")
                        children.append({"g": z3.BoolVal(True), "kind": "closure", "attrs": (), "children": ch})
                    else:
                        args.append(canon(a["e"], env))
                out.append({"g": g, "kind": "call", "attrs": (canon(n["callee"], env),) + tuple(args) + (("?",) if n.get("try") else ()), "children": children, "line": n.get("line")})
            elif k == "if":
                e_then = dict(env)
                c = self.cond(n["cond"], env, benv, bind_env=e_then)
                nt, at = self.walk(n["then"], e_then, benv, z3.And(g, c))
                ne, ae = self.walk(n["else"], env, benv, z3.And(g, z3.Not(c)))
                out.extend(nt)
                out.extend(ne)
                alive = z3.Or(at, ae)
            elif k == "match":
                on = canon(n["on"], env)
                prev = []
                alives = []
                for arm in n["arms"]:
                    if arm.get("cfg") and not self.cfg_on(arm["cfg"]):
                        continue
                    e2 = dict(env)
                    c = self.pat_bind(arm["pat"], on, e2)
                    if arm.get("guard"):
                        c = z3.And(c, self.cond(self.parse_cond(arm["guard"]), e2, benv))
                    gc = z3.And(*([c] + [z3.Not(p) for p in prev]))
                    prev.append(c)
                    na, aa = self.walk(arm["body"], e2, benv, z3.And(g, gc))
                    out.extend(na)
                    alives.append(aa)
                alive = z3.Or(*alives) if alives else g
            elif k == "for":
                it = canon(n["iter"], env)
                e2 = dict(env)
                self.pat_bind(n["pat"], "elem(%s)" % it, e2)
                ch, _ = self.walk(n["body"], e2, benv, z3.BoolVal(True))
                out.append({"g": g, "kind": "for", "attrs": (it,), "children": ch, "line": n.get("line")})
            elif k == "return":
                out.append({"g": g, "kind": "ret", "attrs": (canon(n["expr"], env),), "children": [], "line": n.get("line")})
                alive = z3.BoolVal(False)
            elif k == "cfg":
                if self.cfg_on(n["pred"]):
                    nb, ab = self.walk(n["body"], env, benv, g)
                    out.extend(nb)
                    alive = ab
            elif k == "opaque":
                raise Undecided("writer used in a way the extractor does not model: %s (line %s)" % (n["text"][:80], n.get("line")))
            else:
                raise Undecided("unknown skeleton node " + k)
        return out, alive


def has_emission(n):
    return n["kind"] in ("cons", "tagged", "prim", "call") or any(has_emission(c) for c in n["children"])


def has_kind(n, kind):
    return n["kind"] == kind or any(has_kind(c, kind) for c in n["children"])


def render(n, flat=False):
    a = n["attrs"]
    if n["kind"] == "prim":
        s = "prim %s(%s)" % (a[0], ",".join(a[1:]))
    elif n["kind"] == "call":
        s = "call %s(%s)" % (a[0], ",".join(a[1:]))
    elif n["kind"] == "cons":
        s = "cons " + a[0]
    elif n["kind"] == "tagged":
        s = "tagged %s %s" % a
    elif n["kind"] == "for":
        s = "for " + a[0]
    elif n["kind"] == "ret":
        s = "ret " + a[0]
    elif n["kind"] == "stmt":
        s = "stmt " + a[0]
    else:
        s = n["kind"]
    if flat and n["children"]:
        s += "{" + ";".join(render(c, True) for c in n["children"]) + "}"
    return s


def valid(f, theory=()):
    s = z3.Solver()
    s.add(*theory)
    s.add(z3.Not(f))
    return s.check() == z3.unsat


def implies(a, b, theory=()):
    s = z3.Solver()
    s.add(*theory)
    s.add(a, z3.Not(b))
    return s.check() == z3.unsat


def minimize(g, theory=()):
    """equivalent (under the theory) but shorter formula: drops implied conjuncts / subsumed disjuncts"""
    g = z3.simplify(g)
    if valid(g, theory):
        return z3.BoolVal(True)
    if valid(z3.Not(g), theory):
        return z3.BoolVal(False)
    if z3.is_and(g):
        cs = [minimize(c, theory) for c in g.children()]
        i = 0
        while i < len(cs):
            others = cs[:i] + cs[i + 1:]
            if others and implies(z3.And(*others), cs[i], theory):
                cs.pop(i)
            else:
                i += 1
        return cs[0] if len(cs) == 1 else z3.And(*cs)
    if z3.is_or(g):
        ds = [minimize(d, theory) for d in g.children()]
        i = 0
        while i < len(ds):
            others = ds[:i] + ds[i + 1:]
            if others and implies(ds[i], z3.Or(*others), theory):
                ds.pop(i)
            else:
                i += 1
        return ds[0] if len(ds) == 1 else z3.Or(*ds)
    if z3.is_not(g):
        inner = minimize(g.arg(0), theory)
        return z3.simplify(z3.Not(inner))
    return g


def fmt_guard(g, theory=()):
    m = minimize(g, theory)
    if z3.is_true(m):
        return ""
    return pretty(m)


def pretty(e):
    if z3.is_true(e):
        return "true"
    if z3.is_false(e):
        return "false"
    if z3.is_not(e):
        return "!" + pretty_atom(e.arg(0))
    if z3.is_and(e):
        return " & ".join(pretty_atom(c) for c in e.children())
    if z3.is_or(e):
        return " | ".join(pretty_atom(c) for c in e.children())
    return str(e)


def pretty_atom(e):
    if z3.is_and(e) or z3.is_or(e):
        return "(" + pretty(e) + ")"
    return pretty(e)


def dump(nf, ind=0, lines=None, skip_stmt=True, theory=()):
    lines = [] if lines is None else lines
    for n in nf:
        if skip_stmt and n["kind"] == "stmt":
            continue
        g = fmt_guard(n["g"], theory)
        lines.append("  " * ind + render(n) + ("    when " + g if g else ""))
        dump(n["children"], ind + 1, lines, skip_stmt, theory)
    return lines


# ----------------------------------------------------------------------------- front end
_skel_cache = {}


def skeleton(repo=None):
    repo = repo or REPO
    if repo in _skel_cache:
        return _skel_cache[repo]
    files = []
    for d in ("rcgen/src", "rustls-cert-gen/src"):
        p = os.path.join(repo, d)
        if os.path.isdir(p):
            files += sorted(os.path.join(p, f) for f in os.listdir(p) if f.endswith(".rs"))
    r = subprocess.run([VX_BIN, "skel"] + files, capture_output=True, text=True)
    if r.returncode != 0:
        raise Undecided("vx skel failed: " + r.stderr[-300:])
    units = {}
    for u in json.loads(r.stdout)["units"]:
        units[u["unit"]] = u
    enums = {}
    for f in files:
        ri = subprocess.run([VX_BIN, "index", f], capture_output=True, text=True)
        if ri.returncode != 0:
            raise Undecided("vx index failed on " + f)
        for it in json.loads(ri.stdout)["items"]:
            if it["kind"] == "enum":
                enums[it["name"]] = [v["name"] for v in it["variants"]]
    _skel_cache[repo] = (units, enums)
    return units, enums


def normal_form(unit_name, features=("crypto", "pem", "ring"), options=(), repo=None):
    units, enums = skeleton(repo)
    if unit_name not in units:
        raise Undecided("lost anchor: writer function %s not found" % unit_name)
    u = units[unit_name]
    at = Atoms(enums, options)
    ev = Eval(at, set(features))
    nf, alive = ev.walk(u["body"], {}, {}, z3.BoolVal(True))
    return nf, at, u


if __name__ == "__main__":
    import sys
    units, enums = skeleton()
    names = sys.argv[1:] or sorted(units)
    for name in names:
        print("@unit", name, units[name]["file"].replace(REPO + "/", "") if name in units else "")
        try:
            nf, at, u = normal_form(name, options=("self.name_constraints", "self.serial_number"))
            print("\n".join(dump(nf, theory=at.theory(), skip_stmt=any(has_emission(x) for x in nf))))
        except Undecided as e:
            print("  UNDECIDED:", e)
        print()
