"""Engine S: emission-summary contracts.

The control skeleton of every writer function (extracted by `vx skel` from /repo's current source) is
evaluated symbolically into a *normal form*: a tree of emission nodes (cons / tagged / prim / call /
closure / for / ret) each carrying a guard — a propositional formula over canonical atoms of the
function's inputs.  `if` / `if let` / `match` / early `return` / `let` are eliminated (guards and
substitution), so local names and the way a condition is split over statements do not matter.
The normal form is compared with the function's summary contract (contracts/summary/*.sum: the
same tree written down from RFC 5280 / 2986 and the property text) — structure and arguments must
agree and every pair of guards must be equivalent (z3, under the background theory of the atoms).
On top of that, property-level verification conditions are generated from the normal form
(wrapper present iff a child is emitted, an extension OID is written at most once, criticality
constants, refusal guards, call-site arguments).
Anything the evaluator does not recognise makes the unit UNDECIDED, never a violation.
"""
import json, os, re, subprocess, time
import z3
from vlib import *


class Undecided(Exception):
    pass


# ----------------------------------------------------------------------------- expressions
IDENT = re.compile(r'^[A-Za-z_][A-Za-z0-9_]*$')
DROP_METHODS = ("clone", "to_owned", "to_vec", "into", "as_slice", "iter", "into_iter", "as_ref", "as_deref", "as_mut", "borrow")


TOKEN = re.compile(r"""
    b?"(?:[^"\\]|\\.)*"            # string literal
  | b?'(?:[^'\\]|\\.)'             # char literal
  | '[A-Za-z_][A-Za-z0-9_]*           # lifetime
  | [A-Za-z_][A-Za-z0-9_]*            # identifier / keyword
  | [0-9][A-Za-z0-9_]*(?:\.[0-9][A-Za-z0-9_]*)?   # number
  | ::|->|=>|==|!=|<=|>=|&&|\|\||\.\.=|\.\.|<<|>>
  | [^\sA-Za-z0-9_]                   # any other single character
""", re.X)


def toks(s):
    return TOKEN.findall(s)


def subst(tokens, env):
    out = []
    n = len(tokens)
    stack = []
    for i, t in enumerate(tokens):
        if t in ("(", "[", "{"):
            stack.append(t)
        elif t in (")", "]", "}") and stack:
            stack.pop()
        if IDENT.match(t) and t in env:
            prev = tokens[i - 1] if i > 0 else ""
            nxt = tokens[i + 1] if i + 1 < n else ""
            if prev in (".", "::") or nxt == "::" or (nxt == ":" and prev in ("{", ",")):
                out.append(t)
            elif stack and stack[-1] == "{" and prev in ("{", ",") and nxt in (",", "}") and i >= 2 and _struct_lit(tokens, i):
                out.append(t + " : (" + env[t] + ")")      # field shorthand of a struct literal
            else:
                out.append("(" + env[t] + ")")
        else:
            out.append(t)
    return out


def _struct_lit(tokens, i):
    """is token i inside `Path { … }` (struct literal) rather than a block?"""
    depth = 0
    j = i - 1
    while j >= 0:
        if tokens[j] in (")", "]", "}"):
            depth += 1
        elif tokens[j] in ("(", "[", "{"):
            if depth == 0:
                return tokens[j] == "{" and j > 0 and IDENT.match(tokens[j - 1]) is not None and tokens[j - 1][0].isupper()
            depth -= 1
        j -= 1
    return False


def project_struct_literals(t):
    """Name { a : X , b : Y } . b  ->  ( Y )"""
    changed = True
    while changed:
        changed = False
        for i, x in enumerate(t):
            if x == "{" and i > 0 and IDENT.match(t[i - 1]) and t[i - 1][0].isupper():
                depth, j = 0, i
                while j < len(t):
                    if t[j] in ("(", "[", "{"):
                        depth += 1
                    elif t[j] in (")", "]", "}"):
                        depth -= 1
                        if depth == 0:
                            break
                    j += 1
                if j + 2 < len(t) and t[j + 1] == "." and IDENT.match(t[j + 2]) and not (j + 3 < len(t) and t[j + 3] == "("):
                    field = t[j + 2]
                    body = " ".join(t[i + 1:j])
                    for f in split_top(body):
                        ft = toks(f)
                        if len(ft) >= 3 and ft[0] == field and ft[1] == ":":
                            start = i - 1
                            while start >= 2 and t[start - 1] == "::":
                                start -= 2
                            t = t[:start] + ["("] + ft[2:] + [")"] + t[j + 3:]
                            changed = True
                            break
                    if changed:
                        break
    return t


def _top_level(tokens):
    out, d = [], 0
    for x in tokens:
        if x in ("(", "[", "{"):
            d += 1
        elif x in (")", "]", "}"):
            d -= 1
        elif d == 0:
            out.append(x)
    return out


PURE_FNS = {}     # name -> (param names, body token text): one-line helper functions, substituted into expressions


def inline_pure(t):
    """f(args) -> body[params := args] for the one-line pure helper functions of the crate (token list in, token list out)"""
    changed = True
    rounds = 0
    while changed and rounds < 5:
        changed = False
        rounds += 1
        for i, x in enumerate(t):
            if x in PURE_FNS and i + 1 < len(t) and t[i + 1] == "(" and not (i > 0 and t[i - 1] in (".", "::", "fn")):
                d, j = 0, i + 1
                while j < len(t):
                    if t[j] in ("(", "[", "{"):
                        d += 1
                    elif t[j] in (")", "]", "}"):
                        d -= 1
                        if d == 0:
                            break
                    j += 1
                args = split_top(" ".join(t[i + 2:j]))
                params, body = PURE_FNS[x]
                if len(args) != len(params):
                    continue
                env = {p_: a for p_, a in zip(params, args)}
                t = t[:i] + ["("] + toks(" ".join(subst(toks(body), env))) + [")"] + t[j + 1:]
                changed = True
                break
    return t


def canon(expr, env=None):
    """Canonical text of an expression: variables replaced by their definitions, reference / deref /
    clone noise dropped, redundant parentheses removed, no blanks."""
    t = toks(expr)
    if env:
        t = toks(" ".join(subst(t, env)))
    if PURE_FNS:
        t = inline_pure(t)
    # drop borrow / deref prefixes:  & x, &mut x, * x, ref x  at the start of an operand
    out = []
    for i, x in enumerate(t):
        prev = out[-1] if out else None
        operand_start = prev is None or prev in ("(", ",", "=", "|", "{", "[", "!", "&&", "||", "==", "!=", "=>", "return", ":")
        if x in ("&", "*") and operand_start:
            continue
        if x == "mut" and (i > 0 and t[i - 1] == "&"):
            continue
        if x == "ref" and operand_start:
            continue
        out.append(x)
    t = out
    # drop identity method calls  .clone() .to_owned() ...
    out = []
    i = 0
    while i < len(t):
        if t[i] == "." and i + 3 < len(t) + 0 and t[i + 1] in DROP_METHODS and t[i + 2] == "(" and t[i + 3] == ")":
            i += 4
            continue
        out.append(t[i])
        i += 1
    t = out
    # strip redundant parentheses: a group that is not a call / macro argument list and contains no
    # top-level operator or comma
    changed = True
    while changed:
        changed = False
        stack = []
        for i, x in enumerate(t):
            if x == "(":
                stack.append(i)
            elif x == ")" and stack:
                j = stack.pop()
                prev = t[j - 1] if j > 0 else None
                is_call = prev is not None and (IDENT.match(prev) and prev not in ("return", "in", "if", "match") or prev in (")", "]", ">", "!"))
                if is_call:
                    continue
                inner = t[j + 1:i]
                nxt_tok = t[i + 1] if i + 1 < len(t) else None
                if len(inner) > 0 and (prev is None or prev in ("(", ",", "[", "=", "|", "{", ":")) and (nxt_tok is None or nxt_tok in (")", ",", "]", ";", "}")) and "," not in _top_level(inner):
                    t = t[:j] + inner + t[i + 1:]
                    changed = True
                    break
                depth = 0
                simple = len(inner) > 0
                # a parenthesised struct literal  ( Path { … } )
                if len(inner) >= 3 and inner[-1] == "}" and "{" in inner:
                    k = inner.index("{")
                    if all(IDENT.match(y) or y == "::" for y in inner[:k]) and k > 0:
                        d2, closes_at_end = 0, True
                        for q in range(k, len(inner)):
                            if inner[q] in ("(", "[", "{"):
                                d2 += 1
                            elif inner[q] in (")", "]", "}"):
                                d2 -= 1
                                if d2 == 0 and q != len(inner) - 1:
                                    closes_at_end = False
                                    break
                        if closes_at_end:
                            t = t[:j] + inner + t[i + 1:]
                            changed = True
                            break
                for y in inner:
                    if y in ("(", "[", "{"):
                        depth += 1
                    elif y in (")", "]", "}"):
                        depth -= 1
                    elif depth == 0 and not (IDENT.match(y) or y in (".", "::", "#", "$") or re.match(r'^[0-9]', y)):
                        simple = False
                        break
                if simple:
                    t = t[:j] + inner + t[i + 1:]
                    changed = True
                    break
    t2 = project_struct_literals(list(t))
    if t2 != t:
        return canon(" ".join(t2))
    r = "".join(t)
    return alpha(r) if "|" in r else r


def split_top(s, sep=","):
    """split an expression (text) at top-level separator tokens; returns list of texts"""
    parts, depth, cur = [], 0, []
    for t in toks(s):
        if t in ("(", "[", "{"):
            depth += 1
        elif t in (")", "]", "}"):
            depth -= 1
        if t == sep and depth == 0:
            parts.append(" ".join(cur))
            cur = []
        else:
            cur.append(t)
    if cur:
        parts.append(" ".join(cur))
    return parts


# ----------------------------------------------------------------------------- atoms and theory
class Atoms:
    def __init__(self, enums, option_exprs=()):
        self.atoms = {}
        self.enums = enums           # enum name -> [variant names]
        self.is_atoms = {}           # scrutinee -> {variant: atom}
        self.enum_of = {}            # scrutinee -> enum name
        self.option_exprs = set(option_exprs)
        self.ints = {}

    def I(self, name):
        if name not in self.ints:
            self.ints[name] = z3.Int("int:" + name)
        return self.ints[name]

    def A(self, name):
        if name not in self.atoms:
            self.atoms[name] = z3.Bool(name)
        return self.atoms[name]

    def some(self, x):
        return self.A("some:" + x)

    def empty(self, x):
        return self.A("empty:" + x)

    def is_variant(self, x, enum, variant):
        self.is_atoms.setdefault(x, {})
        if enum:
            self.enum_of[x] = enum
        if variant not in self.is_atoms[x]:
            self.is_atoms[x][variant] = self.A("is:%s:%s" % (x, variant))
        return self.is_atoms[x][variant]

    def theory(self):
        th = []
        for x, vs in self.is_atoms.items():
            atoms = list(vs.values())
            enum = self.enum_of.get(x)
            if enum and enum in self.enums:
                for v in self.enums[enum]:
                    if v not in vs:
                        atoms.append(self.is_variant(x, enum, v))
                th.append(z3.PbEq([(a, 1) for a in atoms], 1))
            else:
                th.append(z3.PbLe([(a, 1) for a in atoms], 1))
        return th


def strip_parens(s):
    t = toks(s)
    while len(t) >= 2 and t[0] == "(" and t[-1] == ")":
        depth = 0
        ok = True
        for i, x in enumerate(t):
            if x == "(":
                depth += 1
            elif x == ")":
                depth -= 1
                if depth == 0 and i != len(t) - 1:
                    ok = False
                    break
        if not ok:
            break
        t = t[1:-1]
    return " ".join(t)


class Eval:
    """symbolic evaluation of one unit"""

    def __init__(self, atoms, features, types=None, uses=None, units=None, contracted=(), depth=0, owner=None):
        self.at = atoms
        self.features = features
        self.types = types or {}
        self.mutable = set()
        self.nlet = 0
        self.uses = uses            # None: first pass (positional names); dict k -> number of uses: second pass
        self.units = units or {}
        self.contracted = set(contracted)
        self.depth = depth
        self.owner = owner          # type that owns the function being evaluated ("CertificateParams"), None for free functions

    def new_let(self, val, out, g, line):
        """a computed value. First pass: positional name. Second pass: used at most once -> substituted;
        used several times -> one definition named by the hash of its text (order- and name-independent)."""
        self.nlet += 1
        k = self.nlet
        if self.uses is None:
            ref = "$L%d" % k
            out.append({"g": g, "kind": "let", "attrs": (ref, val), "children": [], "line": line, "k": k})
            return ref
        n = self.uses.get(k, 0)
        if n == 0 and "?" in val:
            out.append({"g": g, "kind": "stmt", "attrs": (val,), "children": [], "line": line})
            return val
        # substituted unless the value is used several times AND may fail / have an effect (`?`, macro):
        # then one shared definition keeps "the same value is used in both places" in the normal form
        if n <= 1 or not ("?" in val or "!" in val):
            return val
        import hashlib
        ref = "$" + hashlib.sha1(val.encode()).hexdigest()[:6]
        out.append({"g": g, "kind": "let", "attrs": (ref, val), "children": [], "line": line})
        return ref

    # ---- patterns
    def pat_bind(self, pat, value, env):
        """bind the variables of an irrefutable-or-refutable pattern to projections of `value`;
        returns the condition under which the pattern matches"""
        t = toks(pat.strip())
        while True:
            while t and t[0] in ("&", "ref", "mut"):
                t = t[1:]
            # a parenthesised pattern without a top-level comma is just grouping
            if len(t) >= 2 and t[0] == "(" and t[-1] == ")" and toks(strip_parens(" ".join(t))) != t and len(split_top(" ".join(t[1:-1]))) == 1 and t[1:-1].count(",") == 0:
                t = t[1:-1]
                continue
            break
        p = " ".join(t)
        if p == "_" or p == "":
            return z3.BoolVal(True)
        if len(t) > 2 and IDENT.match(t[0]) and t[1] == "@":
            env[t[0]] = value
            return self.pat_bind(" ".join(t[2:]), value, env)
        alts = split_top(p, "|")
        if len(alts) > 1:
            conds, envs = [], []
            for a in alts:
                e2 = {}
                conds.append(self.pat_bind(a, value, e2))
                envs.append(e2)
            for v in envs[0]:
                vals = [e.get(v) for e in envs]
                env[v] = vals[0] if all(x == vals[0] for x in vals) else "alt(" + "|".join(str(x) for x in vals) + ")"
            return z3.Or(*conds)
        if p == "None":
            return z3.Not(self.at.some(value))
        if IDENT.match(p):
            if p[0].isupper():   # unit-like constant / variant without path
                return self.at.is_variant(value, None, p)
            env[p] = value
            return z3.BoolVal(True)
        if t[0] == "(" and t[-1] == ")":   # tuple
            inner = split_top(" ".join(t[1:-1]))
            cs = [self.pat_bind(x, "%s.%d" % (value, i), env) for i, x in enumerate(inner)]
            return z3.And(*cs) if cs else z3.BoolVal(True)
        # path [ ( body ) | { body } ]
        j = 0
        path = []
        while j < len(t) and IDENT.match(t[j]):
            path.append(t[j])
            if j + 1 < len(t) and t[j + 1] == "::":
                j += 2
            else:
                j += 1
                break
        if not path or (j < len(t) and t[j] not in ("(", "{")) or (j < len(t) and t[-1] not in (")", "}")):
            raise Undecided("pattern not understood: " + pat)

        class M:
            pass
        m = M()
        opener = t[j] if j < len(t) else None
        body_text = " ".join(t[j + 1:-1]) if j < len(t) else None
        m.group = lambda k: {1: " :: ".join(path), 2: opener, 3: body_text}[k]
        name = path[-1]
        enum = path[-2] if len(path) > 1 else None
        body = m.group(3)
        if name == "Some" and enum is None:
            c = self.at.some(value)
            if body:
                c = z3.And(c, self.pat_bind(body, "unwrap(%s)" % value, env))
            return c
        if name == "None" and enum is None:
            return z3.Not(self.at.some(value))
        if m.group(2) == "{":   # struct pattern: Name { a, b: pat, .. }
            cs = []
            is_enum_variant = enum is not None and enum != "Self" and enum in self.at.enums
            base = value
            if is_enum_variant:
                cs.append(self.at.is_variant(value, enum, name))
                base = "%s#%s" % (value, name)
            for f in split_top(body):
                f = f.strip()
                if f in ("..", ""):
                    continue
                if " : " in f:
                    fn, fp = f.split(" : ", 1)
                    cs.append(self.pat_bind(fp, "%s.%s" % (base, fn.strip()), env))
                else:
                    ft = [x for x in toks(f) if x not in ("ref", "mut")]
                    env[ft[0]] = "%s.%s" % (base, ft[0])
            return z3.And(*cs) if cs else z3.BoolVal(True)
        # tuple variant / unit variant
        c = self.at.is_variant(value, enum, name)
        if body:
            inner = split_top(body)
            cs = [c]
            for i, x in enumerate(inner):
                cs.append(self.pat_bind(x, "%s#%s.%d" % (value, name, i), env))
            c = z3.And(*cs)
        return c

    # ---- conditions
    def cond(self, c, env, benv, bind_env=None):
        if "not" in c:
            return z3.Not(self.cond(c["not"], env, benv))
        if "or" in c:
            return z3.Or(*[self.cond(x, env, benv) for x in c["or"]])
        if "and" in c:
            return z3.And(*[self.cond(x, env, benv, bind_env) for x in c["and"]])
        if "match" in c:
            on = canon(c["match"]["on"], env)
            prev, parts = [], []
            for arm in c["match"]["arms"]:
                if arm.get("cfg") and not self.cfg_on(arm["cfg"]):
                    continue
                e2 = dict(env)
                pc = self.pat_bind(arm["pat"], on, e2)
                if arm.get("guard"):
                    pc = z3.And(pc, self.cond(self.parse_cond(arm["guard"]), e2, benv))
                gc = z3.And(*([pc] + [z3.Not(x) for x in prev]))
                prev.append(pc)
                parts.append(z3.And(gc, self.cond(arm["value"], e2, benv)))
            return z3.Or(*parts) if parts else z3.BoolVal(False)
        if "ite" in c:
            e_then = dict(env)
            cc = self.cond(c["ite"]["c"], env, benv, bind_env=e_then)
            return z3.Or(z3.And(cc, self.cond(c["ite"]["t"], e_then, benv)), z3.And(z3.Not(cc), self.cond(c["ite"]["e"], env, benv)))
        if "let" in c:
            val = canon(c["let"]["expr"], env)
            target = bind_env if bind_env is not None else {}
            return self.pat_bind(c["let"]["pat"], val, target)
        return self.atom(c["atom"], env, benv)

    def atom(self, text, env, benv):
        t = strip_parens(text)
        tk = toks(t)
        if len(tk) == 1 and tk[0] in benv:
            return benv[tk[0]]
        if t == "true":
            return z3.BoolVal(True)
        if t == "false":
            return z3.BoolVal(False)
        # matches!(X, PAT [if G])
        if len(tk) > 3 and tk[0] == "matches" and tk[1] == "!" and tk[2] == "(" and tk[-1] == ")":
            parts = split_top(" ".join(tk[3:-1]))
            x = canon(parts[0], env)
            rest = " , ".join(parts[1:])
            guard = None
            rt = toks(rest)
            if "if" in rt:
                k = rt.index("if")
                rest, guard = " ".join(rt[:k]), " ".join(rt[k + 1:])
            e2 = dict(env)
            c = self.pat_bind(rest, x, e2)
            if guard:
                c = z3.And(c, self.cond(self.parse_cond(guard), e2, benv))
            return c
        # X.is_some() / X.is_none() / X.is_empty()
        if len(tk) > 4 and tk[-1] == ")" and tk[-2] == "(" and tk[-4] == "." and tk[-3] in ("is_some", "is_none", "is_empty"):
            x = canon(" ".join(tk[:-4]), env)
            if tk[-3] == "is_some":
                return self.at.some(x)
            if tk[-3] == "is_none":
                return z3.Not(self.at.some(x))
            return self.at.empty(x)
        # X.len() == 0 / != 0 / > 0 / >= 1 / < 1   (and the mirrored forms) mean the same as is_empty()
        for i, op in enumerate(tk):
            if op in ("==", "!=", ">", ">=", "<", "<=") and 0 < i < len(tk) - 1:
                l, r = tk[:i], tk[i + 1:]
                flip = {"==": "==", "!=": "!=", ">": "<", "<": ">", ">=": "<=", "<=": ">="}
                if len(l) == 1 and l[0] in ("0", "1") and len(r) > 4:
                    l, r, op = r, l, flip[op]
                if len(r) == 1 and r[0] in ("0", "1", "0usize", "1usize") and len(l) > 4 and l[-4:] == [".", "len", "(", ")"]:
                    x = canon(" ".join(l[:-4]), env)
                    n = r[0][0]
                    e = self.at.empty(x)
                    table = {("==", "0"): e, ("!=", "0"): z3.Not(e), (">", "0"): z3.Not(e), (">=", "1"): z3.Not(e), ("<", "1"): e, ("<=", "0"): e}
                    if (op, n) in table:
                        return table[(op, n)]
                break
        # integer comparisons against literals, and literal ranges:  X < 1950,  (1950..2050).contains(&X)
        m = re.match(r'^\(\s*(\d+)\s*(\.\.=?)\s*(\d+)\s*\)\s*\.\s*contains\s*\((.*)\)$', " ".join(tk))
        if m:
            x = self.at.I(canon(m.group(4), env))
            lo, hi = int(m.group(1)), int(m.group(3))
            return z3.And(x >= lo, x <= hi if m.group(2) == "..=" else x < hi)
        for i, op in enumerate(tk):
            if op in ("==", "!=", ">", ">=", "<", "<=") and 0 < i < len(tk) - 1:
                l, r = tk[:i], tk[i + 1:]
                lit = lambda ts: len(ts) == 1 and re.match(r'^\d[\d_]*(?:[iu](?:8|16|32|64|128|size))?$', ts[0]) is not None
                num = lambda ts: int(re.match(r'^\d[\d_]*', ts[0]).group(0).replace("_", ""))
                if lit(r) and not lit(l) and "(" not in l[:1] + l[-0:0] and not any(x in ("&&", "||") for x in l):
                    x = self.at.I(canon(" ".join(l), env))
                    return {"==": x == num(r), "!=": x != num(r), ">": x > num(r), ">=": x >= num(r), "<": x < num(r), "<=": x <= num(r)}[op]
                if lit(l) and not lit(r) and not any(x in ("&&", "||") for x in r):
                    x = self.at.I(canon(" ".join(r), env))
                    return {"==": x == num(l), "!=": x != num(l), ">": num(l) > x, ">=": num(l) >= x, "<": num(l) < x, "<=": num(l) <= x}[op]
                break
        # X.iter().any(|v| BODY) on an Option
        if "any" in tk:
            k = tk.index("any")
            if k >= 5 and tk[k - 1] == "." and tk[k - 4:k - 1] == ["iter", "(", ")"] and tk[k - 5] == "." and tk[k + 1] == "(" and tk[k + 2] == "|" and tk[k + 4] == "|" and tk[-1] == ")":
                x = canon(" ".join(tk[:k - 5]), env)
                if x in self.at.option_exprs:
                    e2 = dict(env)
                    e2[tk[k + 3]] = "unwrap(%s)" % x
                    return z3.And(self.at.some(x), self.cond(self.parse_cond(" ".join(tk[k + 5:-1])), e2, benv))
        # X == Enum::V  /  X != Enum::V
        for op in ("==", "!="):
            if op in tk:
                k = tk.index(op)
                rhs = tk[k + 1:]
                if len(rhs) >= 3 and all(IDENT.match(r) or r == "::" for r in rhs) and rhs[-2] == "::" and rhs[-1][0].isupper():
                    a = self.at.is_variant(canon(" ".join(tk[:k]), env), rhs[-3], rhs[-1])
                    return a if op == "==" else z3.Not(a)
        return self.at.A("atom:" + canon(t, env))

    def parse_cond(self, text):
        """parse a boolean expression given as token text into the cond-tree form (only !, &&, ||, parentheses)"""
        tk = toks(text)
        pos = [0]

        def peek():
            return tk[pos[0]] if pos[0] < len(tk) else None

        def parse_or():
            l = parse_and()
            while peek() == "||":
                pos[0] += 1
                r = parse_and()
                l = {"or": [l, r]}
            return l

        def parse_and():
            l = parse_not()
            while peek() == "&&":
                pos[0] += 1
                r = parse_not()
                l = {"and": [l, r]}
            return l

        def parse_not():
            if peek() == "!":
                # `!` directly followed by `(`/ident: logical not (macro bang never starts a term)
                pos[0] += 1
                return {"not": parse_not()}
            return parse_term()

        def parse_term():
            # collect tokens up to a top-level && or || or unmatched )
            depth = 0
            start = pos[0]
            if peek() == "(":
                # parenthesised boolean sub-expression?  try it
                save = pos[0]
                pos[0] += 1
                inner = parse_or()
                if peek() == ")":
                    pos[0] += 1
                    if peek() in (None, "&&", "||", ")"):
                        return inner
                pos[0] = save
            while pos[0] < len(tk):
                x = tk[pos[0]]
                if x in ("(", "[", "{"):
                    depth += 1
                elif x in (")", "]", "}"):
                    if depth == 0:
                        break
                    depth -= 1
                elif x in ("&&", "||") and depth == 0:
                    break
                pos[0] += 1
            return {"atom": " ".join(tk[start:pos[0]])}

        r = parse_or()
        return r

    # ---- cfg
    def cfg_on(self, pred):
        import verus_unit as vu
        v = vu.cfg_on("#[%s]" % pred.replace(" ", ""), self.features)
        if v is None:
            raise Undecided("cannot evaluate cfg: " + pred)
        return v

    # ---- nodes
    def try_inline(self, n, env, benv, g):
        """a call that hands the writer to a local helper function which has no summary contract of its own is
        replaced by the helper's normal form (so extracting or inlining a private helper does not change the result)"""
        if self.depth >= 3 or not self.units:
            return None
        callee = "".join(toks(n["callee"]))
        last = callee.split("::")[-1].split(".")[-1]
        # resolution is by name only, so it is restricted to what is unambiguous without type information:
        # a free function `name(..)`, or a method of the current type written `self.name(..)` / `Self::name(..)`
        if n.get("recv") is not None:
            if canon(n["recv"], env) != "self" or not self.owner:
                return None
            want = self.owner + "::" + last
        elif callee.startswith("Self::"):
            if not self.owner or callee.count("::") != 1:
                return None
            want = self.owner + "::" + last
        elif "::" in callee or "." in callee:
            return None
        else:
            want = last
        u = self.units.get(want)
        if u is None or want in self.contracted or not u.get("writer"):
            return None
        if any("c" in a for a in n["args"]):
            return None
        params = [p for p in u["params"]]
        e2 = {}
        ai = 0
        args = list(n["args"])
        if params and params[0]["name"] == "self":
            if not n.get("recv"):
                return None
            e2["self"] = canon(n["recv"], env)
            params = params[1:]
        if len(params) != len(args):
            return None
        for p_, a in zip(params, args):
            if p_["writer"] != ("w" in a):
                return None
            if "e" in a:
                nm = [x for x in toks(p_["name"]) if x not in ("mut", "ref")]
                if len(nm) != 1:
                    return None
                e2[nm[0]] = canon(a["e"], env)
        sub = Eval(self.at, self.features, uses=None if self.uses is None else {}, units=self.units, contracted=self.contracted, depth=self.depth + 1,
                   owner=want.rsplit("::", 1)[0] if "::" in want else None)
        # lets inside an inlined helper are always substituted (their numbering is local to the helper)
        sub.uses = {} if self.uses is not None else None
        nf, _ = sub.walk(u["body"], e2, {}, g)
        if self.uses is None:
            # first pass: make the helper's positional names unique
            def ren(x):
                return re.sub(r'\$L(\d+)', lambda m: "$H%d_%s" % (self.depth + 1, m.group(1)), x)

            def fix(nodes):
                for q in nodes:
                    q["attrs"] = tuple(ren(a) for a in q["attrs"])
                    q.pop("k", None)
                    fix(q["children"])
            fix(nf)
        return nf

    def merge(self, env, branch_envs, out, g, line):
        """after a branching statement: a mutable variable whose value differs between the branches gets a phi"""
        for v in list(env):
            vals = [e.get(v, env[v]) for e in branch_envs]
            if v in self.mutable and any(x != vals[0] for x in vals[1:]):
                env[v] = self.new_let("phi(%s)" % "|".join(vals), out, g, line)

    def walk(self, nodes, env, benv, pc, ret_env=False):
        """returns (normal-form nodes, condition under which control flows past `nodes`);
        with ret_env the caller's env dict is updated in place (used to merge branch environments)"""
        out = []
        alive = pc
        if not ret_env:
            env = dict(env)
        benv = dict(benv)
        for n in nodes:
            k = n["k"]
            g = alive
            if k == "let":
                if n.get("cfg") and not self.cfg_on(n["cfg"]):
                    continue
                pat = n["pat"]
                tp = [x for x in toks(pat) if x not in ("mut", "ref")]
                depth = 0
                for qi, q in enumerate(tp):
                    if q in ("(", "[", "{"):
                        depth += 1
                    elif q in (")", "]", "}"):
                        depth -= 1
                    elif q == ":" and depth == 0:
                        tp = tp[:qi]          # `let pattern: Type = …`
                        pat = " ".join(tp)
                        break
                if n.get("skel"):
                    nf, _ = self.walk(n["skel"], env, benv, z3.BoolVal(True))
                    val = "der{" + ";".join(render(x, flat=True) for x in nf) + "}"
                    if n["expr"].rstrip().endswith("?"):
                        # fallible constructor bound by let: the skeleton is part of the emission
                        for x in nf:
                            x["g"] = z3.And(g, x["g"])
                        out.extend(nf)
                else:
                    val = canon(n["expr"], env)
                if len(tp) == 1 and IDENT.match(tp[0]):
                    is_formula = False
                    # boolean-ish definitions are kept as formulas (they are used in guards, not emitted)
                    try:
                        if boolish(n["cond"]):
                            benv[tp[0]] = self.cond(n["cond"], env, benv)
                            is_formula = True
                    except Undecided:
                        pass
                    if not is_formula and ("(" in val or "?" in val or "!" in val):
                        val = self.new_let(val, out, g, n.get("line"))
                    env[tp[0]] = val
                    if n.get("mutable"):
                        self.mutable.add(tp[0])
                elif pat.strip() == "_":
                    pass
                else:
                    self.pat_bind(pat, val, env)
            elif k == "stmt" or k == "macro":
                st = toks(n["text"])
                def mutated(v):
                    for i, x in enumerate(st):
                        if x != v:
                            continue
                        nxt = st[i + 1] if i + 1 < len(st) else ""
                        prv = st[i - 1] if i > 0 else ""
                        if prv in (".", "::"):
                            continue
                        if nxt in (".", "[", "=", "+=", "-=", "|=", "&=", "^=") or prv == "mut" or nxt in ("+", "-", "|", "&", "^") and i + 2 < len(st) and st[i + 2] == "=":
                            return True
                    return False
                touched = [v for v in self.mutable if v in env and mutated(v)]
                if touched:
                    for v in touched:
                        env[v] = self.new_let("upd(%s|%s)" % (env[v], canon(n["text"], env)), out, g, n.get("line"))
                else:
                    out.append({"g": g, "kind": "stmt", "attrs": (canon(n["text"], env),), "children": [], "line": n.get("line")})
            elif k == "prim":
                out.append({"g": g, "kind": "prim", "attrs": (n["method"],) + tuple(canon(a, env) for a in n["args"]), "children": [], "line": n.get("line")})
            elif k == "cons":
                ch, _ = self.walk(n["body"], env, benv, z3.BoolVal(True))
                out.append({"g": g, "kind": "cons", "attrs": (n["kind"],), "children": ch, "line": n.get("line")})
            elif k == "tagged":
                ch, _ = self.walk(n["body"], env, benv, z3.BoolVal(True))
                out.append({"g": g, "kind": "tagged", "attrs": ("expl" if n["explicit"] else "impl", canon(n["tag"], env)), "children": ch, "line": n.get("line")})
            elif k == "call":
                inl = self.try_inline(n, env, benv, g)
                if inl is not None:
                    out.extend(inl)
                    continue
                args, children = [], []
                for a in n["args"]:
                    if "w" in a:
                        args.append("@w")
                    elif "c" in a:
                        e2 = dict(env)
                        for p in a["params"]:
                            e2.pop(p, None)
                        ch, _ = self.walk(a["c"], e2, benv, z3.BoolVal(True))
                        args.append("<closure>")
                        children.append({"g": z3.BoolVal(True), "kind": "closure", "attrs": (), "children": ch})
                    else:
                        args.append(canon(a["e"], env))
                out.append({"g": g, "kind": "call", "attrs": (canon(n["callee"], env),) + tuple(args), "children": children, "line": n.get("line")})
            elif k == "if":
                e_then = dict(env)
                c = self.cond(n["cond"], env, benv, bind_env=e_then)
                e_else = dict(env)
                nt, at = self.walk(n["then"], e_then, benv, z3.And(g, c), ret_env=True)
                ne, ae = self.walk(n["else"], e_else, benv, z3.And(g, z3.Not(c)), ret_env=True)
                out.extend(nt)
                out.extend(ne)
                # without an early return in either branch control continues exactly as before
                alive = z3.Or(at, ae) if any(has_kind(x, "ret") for x in nt + ne) else g
                self.merge(env, [e_then, e_else], out, g, n.get("line"))
            elif k == "match":
                on = canon(n["on"], env)
                prev = []
                alives = []
                envs = []
                for arm in n["arms"]:
                    if arm.get("cfg") and not self.cfg_on(arm["cfg"]):
                        continue
                    e2 = dict(env)
                    c = self.pat_bind(arm["pat"], on, e2)
                    if arm.get("guard"):
                        c = z3.And(c, self.cond(self.parse_cond(arm["guard"]), e2, benv))
                    gc = z3.And(*([c] + [z3.Not(p) for p in prev]))
                    prev.append(c)
                    na, aa = self.walk(arm["body"], e2, benv, z3.And(g, gc), ret_env=True)
                    out.extend(na)
                    alives.append(aa)
                    envs.append(e2)
                alive = z3.Or(*alives) if (alives and any(x["kind"] == "ret" or has_kind(x, "ret") for x in out)) else g
                self.merge(env, envs, out, g, n.get("line"))
            elif k == "for":
                it = canon(n["iter"], env)
                e2 = dict(env)
                self.pat_bind(n["pat"], "elem(%s)" % it, e2)
                ch, _ = self.walk(n["body"], e2, benv, z3.BoolVal(True), ret_env=True)
                out.append({"g": g, "kind": "for", "attrs": (it,), "children": ch, "line": n.get("line")})
                # variables updated by the loop body carry a loop-dependent value afterwards
                for v in list(env):
                    if v in e2 and e2[v] != env[v] and v in self.mutable:
                        env[v] = self.new_let("after_loop(%s|%s)" % (e2[v], it), out, g, n.get("line"))
            elif k == "return":
                val = canon(n["expr"], env)
                # `return;` / `return Ok(())` only end the function: their effect is the guard of what follows.
                # Returns that carry a value (refusals, results) are part of the normal form.
                out.append({"g": g, "kind": "ret", "attrs": (val,), "children": [], "line": n.get("line"), "trivial": val in ("", "Ok(())", "()")})
                alive = z3.BoolVal(False)
            elif k == "cfg":
                if self.cfg_on(n["pred"]):
                    nb, ab = self.walk(n["body"], env, benv, g)
                    out.extend(nb)
                    alive = ab
            elif k == "opaque":
                raise Undecided("writer used in a way the extractor does not model: %s (line %s)" % (n["text"][:80], n.get("line")))
            else:
                raise Undecided("unknown skeleton node " + k)
        return out, alive


BOOL_RE = re.compile(r'is_empty|is_some|is_none|matches\s*!|==|!=|<=|>=|<|>|\.contains\(|\.any\(|\.all\(|^\s*true\s*$|^\s*false\s*$|^\s*!')


def boolish(c):
    """is this condition tree a boolean-valued expression (so that a `let` of it is a guard definition)?"""
    if "not" in c or "or" in c or "and" in c or "let" in c:
        return True
    if "match" in c:
        return all(boolish(a["value"]) for a in c["match"]["arms"])
    if "ite" in c:
        return boolish(c["ite"]["t"]) and boolish(c["ite"]["e"])
    t = c.get("atom", "")
    if "=>" in t or t.strip().startswith(("match ", "if ")) or "{" in t:
        return False
    return bool(BOOL_RE.search(t)) and not re.search(r'<[A-Za-z_]', t)


def has_emission(n):
    return n["kind"] in ("cons", "tagged", "prim", "call") or any(has_emission(c) for c in n["children"])


def alpha(text):
    """rename closure parameters inside an expression text positionally (|a, b| … -> |_0,_1| …)"""
    t = toks(text)
    out = list(t)
    i = 0
    k = 0
    while i < len(t):
        if t[i] == "|" and (i == 0 or t[i - 1] in ("(", ",", "=", "{", "return", "move")):
            j = i + 1
            names = []
            while j < len(t) and t[j] != "|":
                if IDENT.match(t[j]) and t[j] not in ("mut", "ref"):
                    names.append(t[j])
                j += 1
            if j < len(t):
                ren = {}
                for nme in names:
                    if nme != "_":
                        ren[nme] = "_%d" % k
                        k += 1
                for q in range(i, len(t)):
                    if out[q] in ren and not (q > 0 and t[q - 1] in (".", "::")):
                        out[q] = ren[out[q]]
                # `|p| { expr }` and `|p| expr` are the same closure
                if j + 1 < len(t) and t[j + 1] == "{":
                    d, e = 0, j + 1
                    while e < len(t):
                        if t[e] in ("(", "[", "{"):
                            d += 1
                        elif t[e] in (")", "]", "}"):
                            d -= 1
                            if d == 0:
                                break
                        e += 1
                    inner = t[j + 2:e]
                    if e < len(t) and ";" not in inner and "let" not in inner and inner:
                        out[j + 1] = ""
                        out[e] = ""
                i = j
        i += 1
    return "".join(out)


def has_kind(n, kind):
    return n["kind"] == kind or any(has_kind(c, kind) for c in n["children"])


def render(n, flat=False):
    a = n["attrs"]
    if n["kind"] == "prim":
        s = "prim %s(%s)" % (a[0], ",".join(a[1:]))
    elif n["kind"] == "call":
        s = "call %s(%s)" % (a[0], ",".join(a[1:]))
    elif n["kind"] == "cons":
        s = "cons " + a[0]
    elif n["kind"] == "tagged":
        s = "tagged %s %s" % a
    elif n["kind"] == "for":
        s = "for " + a[0]
    elif n["kind"] == "ret":
        s = ("ret " + a[0]).strip()
    elif n["kind"] == "stmt":
        s = "stmt " + a[0]
    elif n["kind"] == "let":
        s = "let %s = %s" % (a[0], a[1])
    else:
        s = n["kind"]
    if flat and n["children"]:
        s += "{" + ";".join(render(c, True) for c in n["children"]) + "}"
    return s


def valid(f, theory=()):
    s = z3.Solver()
    s.add(*theory)
    s.add(z3.Not(f))
    return s.check() == z3.unsat


def implies(a, b, theory=()):
    s = z3.Solver()
    s.add(*theory)
    s.add(a, z3.Not(b))
    return s.check() == z3.unsat


def minimize(g, theory=()):
    """equivalent (under the theory) but shorter formula: drops implied conjuncts / subsumed disjuncts"""
    g = z3.simplify(g)
    if valid(g, theory):
        return z3.BoolVal(True)
    if valid(z3.Not(g), theory):
        return z3.BoolVal(False)
    if z3.is_and(g):
        cs = [minimize(c, theory) for c in g.children()]
        i = 0
        while i < len(cs):
            others = cs[:i] + cs[i + 1:]
            if others and implies(z3.And(*others), cs[i], theory):
                cs.pop(i)
            else:
                i += 1
        return cs[0] if len(cs) == 1 else z3.And(*cs)
    if z3.is_or(g):
        ds = [minimize(d, theory) for d in g.children()]
        i = 0
        while i < len(ds):
            others = ds[:i] + ds[i + 1:]
            if others and implies(ds[i], z3.Or(*others), theory):
                ds.pop(i)
            else:
                i += 1
        return ds[0] if len(ds) == 1 else z3.Or(*ds)
    if z3.is_not(g):
        inner = minimize(g.arg(0), theory)
        return z3.simplify(z3.Not(inner))
    return g


def fmt_guard(g, theory=()):
    m = minimize(g, theory)
    if z3.is_true(m):
        return ""
    return pretty(m)


def pretty(e):
    if z3.is_app(e) and e.decl().kind() in (z3.Z3_OP_LE, z3.Z3_OP_GE, z3.Z3_OP_LT, z3.Z3_OP_GT, z3.Z3_OP_EQ) and e.num_args() == 2 and z3.is_int(e.arg(0)):
        op = {z3.Z3_OP_LE: "<=", z3.Z3_OP_GE: ">=", z3.Z3_OP_LT: "<", z3.Z3_OP_GT: ">", z3.Z3_OP_EQ: "=="}[e.decl().kind()]
        a, b = e.arg(0), e.arg(1)
        if z3.is_int_value(a) and not z3.is_int_value(b):
            a, b = b, a
            op = {"<=": ">=", ">=": "<=", "<": ">", ">": "<", "==": "=="}[op]
        return "%s%s%s" % (a, op, b)
    if z3.is_true(e):
        return "true"
    if z3.is_false(e):
        return "false"
    if z3.is_not(e):
        return "!" + pretty_atom(e.arg(0))
    if z3.is_and(e):
        return " & ".join(pretty_atom(c) for c in e.children())
    if z3.is_or(e):
        return " | ".join(pretty_atom(c) for c in e.children())
    return str(e)


def pretty_atom(e):
    if z3.is_and(e) or z3.is_or(e):
        return "(" + pretty(e) + ")"
    return pretty(e)


def dump(nf, ind=0, lines=None, skip_stmt=True, theory=()):
    lines = [] if lines is None else lines
    for n in nf:
        if skip_stmt and n["kind"] == "stmt":
            continue
        if n.get("trivial"):
            continue
        g = fmt_guard(n["g"], theory)
        lines.append("  " * ind + render(n) + ("    when " + g if g else ""))
        dump(n["children"], ind + 1, lines, skip_stmt, theory)
    return lines


# ----------------------------------------------------------------------------- front end
S_FEATURES = {"crypto", "pem", "ring", "x509-parser"}
_skel_cache = {}


def skeleton(repo=None):
    repo = repo or REPO
    if repo in _skel_cache:
        return _skel_cache[repo]
    files = []
    for d in ("rcgen/src", "rustls-cert-gen/src"):
        p = os.path.join(repo, d)
        if os.path.isdir(p):
            files += sorted(os.path.join(p, f) for f in os.listdir(p) if f.endswith(".rs"))
    r = subprocess.run([VX_BIN, "skel"] + files, capture_output=True, text=True)
    if r.returncode != 0:
        raise Undecided("vx skel failed: " + r.stderr[-300:])
    units = {}
    import verus_unit as vu
    for u in json.loads(r.stdout)["units"]:
        if u.get("cfg"):
            on = vu.cfg_on("#[%s]" % u["cfg"].replace(" ", ""), S_FEATURES)
            if on is False:
                continue
        units[u["unit"]] = u
    enums = {}
    for f in files:
        ri = subprocess.run([VX_BIN, "index", f], capture_output=True, text=True)
        if ri.returncode != 0:
            raise Undecided("vx index failed on " + f)
        for it in json.loads(ri.stdout)["items"]:
            if it["kind"] == "enum":
                enums[it["name"]] = [v["name"] for v in it["variants"]]
    PURE_FNS.clear()
    for name, u in units.items():
        if "::" in name or u.get("writer") or not u["body"] or u["body"][-1]["k"] != "stmt":
            continue
        if any(n["k"] != "let" or not IDENT.match(n["pat"].strip()) or n.get("skel") for n in u["body"][:-1]):
            continue
        ps = [p_["name"] for p_ in u["params"]]
        if any(not IDENT.match(x) or x == "self" for x in ps):
            continue
        env = {}
        for n in u["body"][:-1]:
            env[n["pat"].strip()] = " ".join(subst(toks(n["expr"]), env))
        body = " ".join(subst(toks(u["body"][-1]["text"]), env))
        bt = toks(body)
        if "?" in bt or "!" in bt or "return" in bt or "expect" in bt or "unwrap" in bt or len(bt) > 60:
            continue
        PURE_FNS[name] = (ps, body)
    _skel_cache[repo] = (units, enums)
    return units, enums


_contracted = None


def contracted_units():
    """names of the functions that have a summary contract (they are NOT inlined into their callers: modular)"""
    global _contracted
    if _contracted is None:
        _contracted = set()
        sdir = os.path.join(VERIF, "contracts", "summary")
        for f in os.listdir(sdir) if os.path.isdir(sdir) else []:
            if f.endswith(".sum"):
                for line in open(os.path.join(sdir, f)):
                    if line.startswith("@unit "):
                        _contracted.add(line.split()[1])
    return _contracted


def count_uses(nf, at):
    texts = []

    def walk(ns):
        for n in ns:
            texts.extend(n["attrs"][1:] if n["kind"] == "let" else n["attrs"])
            walk(n["children"])
    walk(nf)
    texts.extend(at.atoms.keys())
    texts.extend(at.ints.keys())
    texts.extend(at.is_atoms.keys())
    blob = "\x00".join(texts)
    uses = {}
    for m in re.finditer(r'\$L(\d+)', blob):
        k = int(m.group(1))
        uses[k] = uses.get(k, 0) + 1
    return uses


def two_pass(u, units, enums, options, features, at2=None):
    at1 = Atoms(enums, options)
    owner = u["unit"].rsplit("::", 1)[0] if "::" in u["unit"] else None
    ev1 = Eval(at1, features, uses=None, units=units, contracted=contracted_units() - {u["unit"]}, owner=owner)
    nf1, _ = ev1.walk(u["body"], {}, {}, z3.BoolVal(True))
    uses = count_uses(nf1, at1)
    at = at2 if at2 is not None else Atoms(enums, options)
    ev2 = Eval(at, features, uses=uses, units=units, contracted=contracted_units() - {u["unit"]}, owner=owner)
    nf2, _ = ev2.walk(u["body"], {}, {}, z3.BoolVal(True))
    return nf2, at


def normal_form(unit_name, features=tuple(sorted(S_FEATURES)), options=(), repo=None):
    units, enums = skeleton(repo)
    if unit_name not in units:
        raise Undecided("lost anchor: writer function %s not found" % unit_name)
    u = units[unit_name]
    nf, at = two_pass(u, units, enums, options, set(features))
    return nf, at, u


if __name__ == "__main__" and not (len(__import__("sys").argv) > 1 and __import__("sys").argv[1] == "--check"):
    import sys
    units, enums = skeleton()
    names = sys.argv[1:] or sorted(units)
    for name in names:
        print("@unit", name, units[name]["file"].replace(REPO + "/", "") if name in units else "")
        try:
            nf, at, u = normal_form(name, options=("self.name_constraints", "self.serial_number"))
            print("\n".join(dump(nf, theory=at.theory(), skip_stmt=any(has_emission(x) for x in nf))))
        except Undecided as e:
            print("  UNDECIDED:", e)
        print()


# ----------------------------------------------------------------------------- summary contracts
ATOM_PREFIX = ("some:", "empty:", "is:", "atom:", "int:")


def parse_guard(text, at):
    """guard syntax of .sum files:  !x  a & b  a | b  ( … )  over atoms some:/empty:/is:/atom: (no blanks inside an atom)"""
    raw = text.split()
    tk = []
    for w in raw:
        if w in ("&", "|"):
            tk.append(w)
            continue
        pre = []
        while w and not w.startswith(ATOM_PREFIX) and w[0] in "!(":
            pre.append(w[0])
            w = w[1:]
        post = []
        if w in ("true", "false"):
            pass
        else:
            # trailing ')' beyond the atom's own balance close groups
            while w.endswith(")") and w.count("(") < w.count(")"):
                post.append(")")
                w = w[:-1]
        while w.endswith(")") and w in ("true)", "false)"):
            post.append(")")
            w = w[:-1]
        tk += pre + [w] + post
    pos = [0]

    def peek():
        return tk[pos[0]] if pos[0] < len(tk) else None

    def p_or():
        l = p_and()
        while peek() == "|":
            pos[0] += 1
            l = z3.Or(l, p_and())
        return l

    def p_and():
        l = p_not()
        while peek() == "&":
            pos[0] += 1
            l = z3.And(l, p_not())
        return l

    def p_not():
        if peek() == "!":
            pos[0] += 1
            return z3.Not(p_not())
        if peek() == "(":
            pos[0] += 1
            r = p_or()
            if peek() != ")":
                raise ValueError("unbalanced guard: " + text)
            pos[0] += 1
            return r
        a = peek()
        pos[0] += 1
        if a == "true":
            return z3.BoolVal(True)
        if a == "false":
            return z3.BoolVal(False)
        if a is None or not a.startswith(ATOM_PREFIX):
            raise ValueError("bad atom '%s' in guard: %s" % (a, text))
        if a.startswith("int:"):
            m = re.match(r'^int:(.*?)(<=|>=|==|<|>)(-?\d+)$', a)
            if not m:
                raise ValueError("bad integer atom '%s'" % a)
            x, n = at.I(m.group(1)), int(m.group(3))
            return {"<=": x <= n, ">=": x >= n, "==": x == n, "<": x < n, ">": x > n}[m.group(2)]
        if a.startswith("is:"):
            body = a[3:]
            x, v = body.rsplit(":", 1)
            return at.is_variant(x, at.enum_of.get(x), v)
        return at.A(a)

    r = p_or()
    if pos[0] != len(tk):
        raise ValueError("trailing tokens in guard: " + text)
    return r


def parse_sum(path):
    """returns list of units: {unit, file, options, lines:[(indent, text, guard_text, lineno)], consts}"""
    units, cur = [], None
    for ln, line in enumerate(open(path), 1):
        if line.startswith("#") or not line.strip():
            continue
        if line.startswith("@unit"):
            parts = line.split()
            cur = {"unit": parts[1], "file": parts[2], "options": [], "lines": [], "path": path, "vc": [], "note": ""}
            for p in parts[3:]:
                if p.startswith("options="):
                    cur["options"] = [x for x in p[8:].split(",") if x]
            units.append(cur)
        elif line.startswith("@vc"):
            cur["vc"].append(line[3:].strip())
        elif line.startswith("@end"):
            cur = None
        elif cur is not None:
            body = line.rstrip("\n")
            ind = (len(body) - len(body.lstrip(" "))) // 2
            body = body.strip()
            guard = ""
            if "    when " in body:
                body, guard = body.split("    when ", 1)
            cur["lines"].append((ind, body.strip(), guard.strip(), ln))
    return units


def tree_of(lines):
    root = {"children": []}
    stack = [(-1, root)]
    for ind, text, guard, ln in lines:
        node = {"text": text, "guard": guard, "ln": ln, "children": []}
        while stack and stack[-1][0] >= ind:
            stack.pop()
        stack[-1][1]["children"].append(node)
        stack.append((ind, node))
    return root["children"]


class Mismatch(Exception):
    def __init__(self, msg, model=None, line=None, cline=None):
        Exception.__init__(self, msg)
        self.model, self.line, self.cline = model, line, cline


def model_of(f, theory):
    s = z3.Solver()
    s.add(*theory)
    s.add(f)
    if s.check() != z3.sat:
        return None
    m = s.model()
    out = {}
    for d in m.decls():
        v = m[d]
        out[str(d)] = bool(v) if z3.is_bool(v) else (v.as_long() if z3.is_int_value(v) else str(v))
    return out


def _generic(nodes, at, code_side, keep_stmt):
    out = []
    for n in nodes:
        if code_side:
            if (n["kind"] == "stmt" and not keep_stmt) or n["kind"] == "let" or n.get("trivial"):
                continue
            out.append({"text": render(n), "g": n["g"], "children": _generic(n["children"], at, True, keep_stmt), "line": n.get("line"), "ln": None})
        else:
            if n["text"].startswith("let $"):
                continue
            out.append({"text": n["text"], "g": parse_guard(n["guard"], at) if n["guard"] else z3.BoolVal(True),
                        "children": _generic(n["children"], at, False, keep_stmt), "line": None, "ln": n["ln"], "gtext": n["guard"]})
    return out


def _lets(nodes, code_side, acc):
    for n in nodes:
        if code_side and n["kind"] == "let":
            acc.add(render(n))
        if not code_side and n["text"].startswith("let $"):
            acc.add(n["text"])
        _lets(n["children"], code_side, acc)
    return acc


def canonicalize(nodes, outer, th):
    """drop dead nodes; merge siblings that write the same thing under mutually exclusive guards (e.g. the same
    extension written in two match arms, or one refusal split over several `if`s) into one node"""
    live = []
    for n in nodes:
        if model_of(z3.And(outer, n["g"]), th) is not None:
            live.append(n)
    i = 0
    while i < len(live):
        j = i + 1
        while j < len(live):
            a, b = live[i], live[j]
            if a["text"] == b["text"] and model_of(z3.And(outer, a["g"], b["g"]), th) is None and \
               all(model_of(z3.And(outer, live[k]["g"], b["g"]), th) is None for k in range(i + 1, j)):
                for c in a["children"]:
                    c["g"] = z3.And(a["g"], c["g"])
                for c in b["children"]:
                    c["g"] = z3.And(b["g"], c["g"])
                a["children"] = a["children"] + b["children"]
                a["g"] = z3.Or(a["g"], b["g"])
                a["merged"] = True
                live.pop(j)
                continue
            j += 1
        i += 1
    return live


def compare(code_nodes, want_nodes, at, keep_stmt, path="", outer=None):
    """structural comparison with semantic guard equivalence; raises Mismatch"""
    cl, wl = _lets(code_nodes, True, set()), _lets(want_nodes, False, set())
    if cl != wl:
        d = sorted(cl ^ wl)
        raise Mismatch("shared definition differs: %s" % "; ".join(x[:140] for x in d[:2]), model=None)
    _compare(_generic(code_nodes, at, True, keep_stmt), _generic(want_nodes, at, False, keep_stmt), at, path, z3.BoolVal(True) if outer is None else outer)


def _compare(code, want, at, path, outer):
    th = at.theory()
    code = canonicalize(code, outer, th)
    want = canonicalize(want, outer, th)
    for i in range(max(len(code), len(want))):
        if i >= len(code):
            w = want[i]
            raise Mismatch("missing emission: the contract requires `%s`%s at %s but the code emits nothing there" % (w["text"], (" when " + w.get("gtext", "")) if w.get("gtext") else "", path or "top level"),
                           model=model_of(z3.And(outer, w["g"]), th), cline=w["ln"])
        c = code[i]
        if i < len(want) and c["text"] != want[i]["text"]:
            # emissions under mutually exclusive guards may appear in any order in the source (e.g. reordered match
            # arms): look ahead for the expected line and move it here if everything it jumps over excludes it
            for j in range(i + 1, len(code)):
                if code[j]["text"] == want[i]["text"]:
                    if all(model_of(z3.And(outer, code[k]["g"], code[j]["g"]), th) is None for k in range(i, j)):
                        code.insert(i, code.pop(j))
                        c = code[i]
                    break
        if i >= len(want):
            raise Mismatch("extra emission: the code emits `%s` (line %s) at %s which the contract does not allow" % (c["text"], c.get("line"), path or "top level"),
                           model=model_of(z3.And(outer, c["g"]), th), line=c.get("line"))
        w = want[i]
        if c["text"] != w["text"]:
            raise Mismatch("emission differs at %s: code (line %s) `%s` — contract (line %s) `%s`" % (path or "top level", c.get("line"), c["text"], w["ln"], w["text"]),
                           model=model_of(z3.And(outer, c["g"]), th), line=c.get("line"), cline=w["ln"])
        diff = model_of(z3.And(outer, z3.Xor(c["g"], w["g"])), th)
        if diff is not None:
            raise Mismatch("guard differs for `%s` (code line %s): code emits it when [%s], the contract requires [%s]" % (w["text"], c.get("line"), fmt_guard(c["g"], th) or "always", fmt_guard(w["g"], th) or "always"),
                           model=diff, line=c.get("line"), cline=w["ln"])
        _compare(c["children"], w["children"], at, path + "/" + w["text"].split("(")[0], z3.And(outer, c["g"]))


def emits_guard(nodes, at, callee_emits):
    """condition under which a list of normal-form nodes writes at least one element"""
    gs = []
    for n in nodes:
        if n["kind"] in ("cons", "tagged", "prim"):
            gs.append(n["g"])
        elif n["kind"] == "call":
            callee = n["attrs"][0]
            key = callee.split(".")[-1]
            if callee in callee_emits:
                gs.append(z3.And(n["g"], callee_emits[callee]))
            elif key in callee_emits:
                gs.append(z3.And(n["g"], callee_emits[key]))
            else:
                gs.append(n["g"])
        elif n["kind"] == "for":
            gs.append(z3.And(n["g"], z3.Not(at.empty(n["attrs"][0]))))
    return z3.Or(*gs) if gs else z3.BoolVal(False)


def find_nodes(nodes, pred, acc=None, pc=None):
    acc = [] if acc is None else acc
    pc = z3.BoolVal(True) if pc is None else pc
    for n in nodes:
        g = z3.And(pc, n["g"])
        if pred(n):
            acc.append((n, g))
        find_nodes(n["children"], pred, acc, g)
    return acc


def emit_unit(name, props, options=()):
    nf, at, u = normal_form(name, options=options)
    keep = not any(has_emission(x) for x in nf)
    hdr = "@unit %s %s props=%s" % (name, u["file"].replace(REPO + "/", ""), ",".join(props))
    if options:
        hdr += " options=" + ",".join(options)
    return hdr + "\n" + "\n".join(dump(nf, theory=at.theory(), skip_stmt=not keep)) + "\n@end\n"


# ----------------------------------------------------------------------------- property-level VCs
CALLEE_UNITS = {
    "self.write_key_usage": "CertificateParams::write_key_usage",
    "self.write_subject_alt_names": "CertificateParams::write_subject_alt_names",
    "self.write_extended_key_usage": "CertificateParams::write_extended_key_usage",
    "write_x509_authority_key_identifier": "write_x509_authority_key_identifier",
    "self.write_extension_request_attribute": "CertificateParams::write_extension_request_attribute",
}


class Ctx:
    """normal forms of several units over ONE atom table (so that guards can be combined)"""

    def __init__(self, options=()):
        self.units, self.enums = skeleton()
        self.at = Atoms(self.enums, options)
        self.nf = {}

    def get(self, unit):
        if unit not in self.nf:
            if unit not in self.units:
                raise Undecided("lost anchor: function %s not found" % unit)
            self.nf[unit], _ = two_pass(self.units[unit], self.units, self.enums, self.at.option_exprs, set(S_FEATURES), at2=self.at)
        return self.nf[unit]

    def theory(self):
        return self.at.theory()


def ext_sites(ctx, nodes, pc):
    """all X.509 extension emission sites below `nodes`: (oid text, critical text, guard, line, via)"""
    sites = []
    for n in nodes:
        g = z3.And(pc, n["g"])
        if n["kind"] == "call":
            callee = n["attrs"][0]
            if callee == "write_x509_extension":
                sites.append((n["attrs"][2], n["attrs"][3], g, n.get("line"), "direct"))
            elif callee in CALLEE_UNITS:
                sub = ctx.get(CALLEE_UNITS[callee])
                for (o, c, g2, ln, via) in ext_sites(ctx, sub, g):
                    sites.append((o, c, g2, ln, callee))
            else:
                for ch in n["children"]:
                    sites += ext_sites(ctx, ch["children"], g)
        elif n["kind"] == "for":
            inner = ext_sites(ctx, n["children"], z3.And(g, z3.Not(ctx.at.empty(n["attrs"][0]))))
            sites += inner
        elif n["kind"] in ("cons", "tagged", "closure"):
            sites += ext_sites(ctx, n["children"], g)
    return sites


def check_ext_table(ctx, sites, table, what):
    """table: oid text -> (request guard text or None, expected critical text, mode) ; mode 'iff' | 'custom'.
    Returns list of (vc name, ok, detail, model)."""
    res = []
    th_atoms = ctx.at
    by_oid = {}
    for s in sites:
        by_oid.setdefault(s[0], []).append(s)
    for oid, ss in by_oid.items():
        if oid not in table:
            res.append(("%s.no_other_extension[%s]" % (what, oid), False,
                        "the code writes extension %s (line %s) which the property does not allow" % (oid, ss[0][3]), model_of(ss[0][2], ctx.theory())))
    for oid, (req, crit, mode) in table.items():
        ss = by_oid.get(oid, [])
        if not ss:
            res.append(("%s.present_iff_requested[%s]" % (what, oid), False, "extension %s is never written" % oid,
                        model_of(parse_guard(req, th_atoms), ctx.theory()) if req else None))
            continue
        union = z3.Or(*[s[2] for s in ss])
        if mode == "iff":
            want = parse_guard(req, th_atoms) if req else z3.BoolVal(True)
            m = model_of(z3.Xor(union, want), ctx.theory())
            res.append(("%s.present_iff_requested[%s]" % (what, oid), m is None,
                        "written when [%s]; the property requires [%s]" % (fmt_guard(union, ctx.theory()) or "always", req or "always"), m))
        # at most once
        dup = None
        for i in range(len(ss)):
            for j in range(i + 1, len(ss)):
                m = model_of(z3.And(ss[i][2], ss[j][2]), ctx.theory())
                if m is not None:
                    dup = (ss[i][3], ss[j][3], m)
        if mode == "iff":
            res.append(("%s.oid_at_most_once[%s]" % (what, oid), dup is None,
                        "two emission sites (lines %s and %s) can both be active" % (dup[0], dup[1]) if dup else "emission sites are mutually exclusive", dup[2] if dup else None))
        bad = [s for s in ss if s[1] != crit]
        res.append(("%s.criticality[%s]" % (what, oid), not bad,
                    "critical flag is `%s` (line %s), required `%s`" % (bad[0][1], bad[0][3], crit) if bad else "critical = %s" % crit, None))
    return res


def wrapper_vc(ctx, wrapper_guard, inner_nodes, name):
    """the wrapper is written exactly when at least one inner element is"""
    callee_emits = {}
    for c, u in CALLEE_UNITS.items():
        try:
            callee_emits[c] = emits_guard(ctx.get(u), ctx.at, {})
        except Undecided:
            pass
    inner = emits_guard(inner_nodes, ctx.at, callee_emits)
    m = model_of(z3.Xor(wrapper_guard, z3.And(wrapper_guard, inner)), ctx.theory())   # wrapper written but empty
    res = [(name + ".not_empty", m is None, "wrapper written while nothing inside it is" if m else "whenever the wrapper is written something inside it is", m)]
    return res, inner


CERT_EXT_TABLE = {
    # RFC 5280 4.2 + property C02/C05: extension -> (present iff, critical)
    "oid::AUTHORITY_KEY_IDENTIFIER": ("atom:self.use_authority_key_identifier_extension", "false", "iff"),
    "oid::SUBJECT_ALT_NAME": ("!empty:self.subject_alt_names", "self.distinguished_name.entries.is_empty()", "iff"),
    "oid::KEY_USAGE": ("!empty:self.key_usages", "true", "iff"),
    "oid::EXT_KEY_USAGE": ("!empty:self.extended_key_usages", "false", "iff"),
    "oid::NAME_CONSTRAINTS": ("some:self.name_constraints & !empty:unwrap(self.name_constraints)", "true", "iff"),
    "oid::CRL_DISTRIBUTION_POINTS": ("!empty:self.crl_distribution_points", "false", "iff"),
    "oid::SUBJECT_KEY_IDENTIFIER": ("!is:self.is_ca:NoCa", "false", "iff"),
    "oid::BASIC_CONSTRAINTS": ("!is:self.is_ca:NoCa", "true", "iff"),
    "elem(self.custom_extensions).oid": ("!empty:self.custom_extensions", "elem(self.custom_extensions).critical", "iff"),
}
CSR_EXT_TABLE = {
    "oid::SUBJECT_ALT_NAME": ("!empty:self.subject_alt_names", "self.distinguished_name.entries.is_empty()", "iff"),
    "oid::KEY_USAGE": ("!empty:self.key_usages", "true", "iff"),
    "oid::EXT_KEY_USAGE": ("!empty:self.extended_key_usages", "false", "iff"),
    "elem(self.custom_extensions).oid": ("!empty:self.custom_extensions", "elem(self.custom_extensions).critical", "iff"),
}
CRL_EXT_TABLE = {
    "oid::AUTHORITY_KEY_IDENTIFIER": (None, "false", "iff"),
    "oid::CRL_NUMBER": (None, "false", "iff"),
    "oid::CRL_ISSUING_DISTRIBUTION_POINT": ("some:self.issuing_distribution_point", "true", "iff"),
}
ENTRY_EXT_TABLE = {
    # reason: present when a reason other than unspecified is given, absent when none is given (unspecified: either)
    "oid::CRL_REASONS": (None, "false", "custom"),
    "oid::CRL_INVALIDITY_DATE": ("some:self.invalidity_date", "false", "iff"),
}


def find_first(nodes, pred, pc=None):
    r = find_nodes(nodes, pred)
    return r[0] if r else (None, None)


def vcs_cert():
    ctx = Ctx(options=("self.name_constraints", "self.serial_number"))
    nf = ctx.get("CertificateParams::serialize_der_with_signer")
    w, wg = find_first(nf, lambda n: n["kind"] == "tagged" and n["attrs"] == ("expl", "Tag::context(3)"))
    if w is None:
        raise Undecided("lost anchor: no [3] EXPLICIT wrapper in serialize_der_with_signer")
    res = []
    seq = w["children"][0]["children"] if w["children"] and w["children"][0]["kind"] == "cons" else w["children"]
    sites = ext_sites(ctx, seq, wg)
    res += check_ext_table(ctx, sites, CERT_EXT_TABLE, "cert")
    r2, inner = wrapper_vc(ctx, wg, seq, "cert.ext_wrapper")
    res += r2
    # nothing requested is dropped: if any extension is requested the wrapper must be there
    req_any = z3.Or(*[parse_guard(v[0], ctx.at) for v in CERT_EXT_TABLE.values()])
    m = model_of(z3.Xor(wg, req_any), ctx.theory())
    res.append(("cert.ext_wrapper.iff_any_requested", m is None,
                "the [3] block is written when [%s]; required: exactly when some extension is requested" % (fmt_guard(wg, ctx.theory()) or "always"), m))
    # every CA certificate carries a subject key identifier
    ski = [s for s in sites if s[0] == "oid::SUBJECT_KEY_IDENTIFIER"]
    if ski:
        m = model_of(z3.And(ctx.at.is_variant("self.is_ca", "IsCa", "Ca"), z3.Not(z3.Or(*[s[2] for s in ski]))), ctx.theory())
        res.append(("cert.ski_in_every_ca", m is None, "a CA certificate without subject key identifier is possible" if m else "is_ca = Ca(_) implies the subject key identifier is written", m))
    # version 3 always
    v, vg = find_first(nf, lambda n: n["kind"] == "tagged" and n["attrs"] == ("expl", "Tag::context(0)"))
    ok = v is not None and valid(vg, ctx.theory()) and [render(c) for c in v["children"]] == ["prim write_u8(2)"]
    res.append(("cert.version_v3", ok, "version [0] EXPLICIT INTEGER 2 written unconditionally" if ok else "version field is not an unconditional [0]{2}", None))
    return res, ctx


def vcs_csr():
    ctx = Ctx(options=("self.name_constraints", "self.serial_number"))
    nf = ctx.get("CertificateParams::serialize_request_with_attributes")
    res = []
    th = ctx.theory
    # refusal rule (property C07): the five fields a CSR cannot express
    want = parse_guard("some:self.serial_number | !is:self.is_ca:NoCa | some:self.name_constraints | !empty:self.crl_distribution_points | atom:self.use_authority_key_identifier_extension", ctx.at)
    rets = [(n, g) for n, g in find_nodes(nf, lambda n: n["kind"] == "ret" and "UnsupportedInCsr" in n["attrs"][0])]
    refuse = z3.Or(*[g for _, g in rets]) if rets else z3.BoolVal(False)
    m = model_of(z3.Xor(refuse, want), th())
    res.append(("csr.refusal_rule", m is None, "refused when [%s]; the property requires refusal exactly when one of the five unsupported fields is set" % (fmt_guard(refuse, th()) or "never"), m))
    signs = find_nodes(nf, lambda n: n["kind"] == "call" and n["attrs"][0].endswith(".sign_der"))
    if not signs:
        raise Undecided("lost anchor: no sign_der call in serialize_request_with_attributes")
    sg = z3.Or(*[g for _, g in signs])
    m = model_of(z3.And(sg, want), th())
    res.append(("csr.refusal_dominates_signing", m is None, "the request is signed although an unsupported field is set" if m else "nothing is signed when the request must be refused", m))
    m = model_of(z3.And(z3.Not(sg), z3.Not(want)), th())
    res.append(("csr.supported_is_signed", m is None, "a supported parameter set is not signed" if m else "every supported parameter set reaches the signer", m))
    # extension request attribute: present iff any of the four sources is non-empty; contents per table
    sn, _ = signs[0]
    body = sn["children"][0]["children"] if sn["children"] else []
    er, eg = find_first(body, lambda n: n["kind"] == "call" and n["attrs"][0] == "self.write_extension_request_attribute")
    if er is None:
        raise Undecided("lost anchor: extension request attribute call not found")
    era = ctx.get("CertificateParams::write_extension_request_attribute")
    sites = ext_sites(ctx, era, z3.BoolVal(True))
    res += check_ext_table(ctx, sites, CSR_EXT_TABLE, "csr.extreq")
    any_req = z3.Or(*[parse_guard(v[0], ctx.at) for v in CSR_EXT_TABLE.values()])
    m = model_of(z3.Xor(eg, any_req), th())
    res.append(("csr.extreq.iff_any_requested", m is None, "extension request attribute written when [%s]" % (fmt_guard(eg, th()) or "always"), m))
    n_er = len(find_nodes(body, lambda n: n["kind"] == "call" and n["attrs"][0] == "self.write_extension_request_attribute"))
    res.append(("csr.extreq.at_most_one", n_er == 1, "%d emission site(s) of the extension request attribute" % n_er, None))
    return res, ctx


def vcs_crl():
    ctx = Ctx(options=("self.issuing_distribution_point", "self.reason_code", "self.invalidity_date", "self.scope"))
    nf = ctx.get("CertificateRevocationListParams::serialize_der")
    res = []
    th = ctx.theory
    w, wg = find_first(nf, lambda n: n["kind"] == "tagged" and n["attrs"] == ("expl", "Tag::context(0)"))
    if w is None:
        raise Undecided("lost anchor: no [0] EXPLICIT crlExtensions in serialize_der")
    res.append(("crl.extensions_always", valid(wg, th()), "crlExtensions [0] written unconditionally" if valid(wg, th()) else "crlExtensions is conditional", model_of(z3.Not(wg), th())))
    seq = w["children"][0]["children"] if w["children"] and w["children"][0]["kind"] == "cons" else w["children"]
    res += check_ext_table(ctx, ext_sites(ctx, seq, wg), CRL_EXT_TABLE, "crl")
    # revokedCertificates absent iff nothing revoked
    rl = find_nodes(nf, lambda n: n["kind"] == "for" and n["attrs"][0] == "self.revoked_certs")
    if not rl:
        raise Undecided("lost anchor: loop over revoked_certs not found")
    wrap = find_nodes(nf, lambda n: n["kind"] == "cons" and any(c["kind"] == "for" and c["attrs"][0] == "self.revoked_certs" for c in n["children"]))
    if wrap:
        m = model_of(z3.Xor(wrap[0][1], z3.Not(ctx.at.empty("self.revoked_certs"))), th())
        res.append(("crl.revoked_list_iff_nonempty", m is None, "revokedCertificates written when [%s]" % (fmt_guard(wrap[0][1], th()) or "always"), m))
    # entry extensions
    enf = ctx.get("RevokedCertParams::write_der")
    outer = enf[0]["children"] if enf and enf[0]["kind"] == "cons" else enf
    ew = [n for n in outer if n["kind"] == "cons"]
    if not ew:
        raise Undecided("lost anchor: crlEntryExtensions SEQUENCE not found")
    ewg = ew[0]["g"]
    sites = ext_sites(ctx, ew[0]["children"], ewg)
    res += check_ext_table(ctx, sites, ENTRY_EXT_TABLE, "crl.entry")
    r2, inner = wrapper_vc(ctx, ewg, ew[0]["children"], "crl.entry.ext_wrapper")
    res += r2
    rs = [s for s in sites if s[0] == "oid::CRL_REASONS"]
    if rs:
        present = z3.Or(*[s[2] for s in rs])
        some_r = ctx.at.some("self.reason_code")
        unspec = ctx.at.is_variant("unwrap(self.reason_code)", "RevocationReason", "Unspecified")
        m = model_of(z3.And(some_r, z3.Not(unspec), z3.Not(present)), th())
        res.append(("crl.entry.reason_present_when_given", m is None, "a given reason (other than unspecified) is dropped" if m else "a reason other than unspecified is always written", m))
        m = model_of(z3.And(present, z3.Not(some_r)), th())
        res.append(("crl.entry.reason_absent_when_none", m is None, "a reason code is written although none was given" if m else "no reason code without a given reason", m))
    return res, ctx


def run_vcs(prop, group):
    """group: 'cert' | 'csr' | 'crl'. Returns list of Ob."""
    t0 = time.time()
    fn = {"cert": vcs_cert, "csr": vcs_csr, "crl": vcs_crl}[group]
    obs = []
    try:
        res, ctx = fn()
    except Undecided as e:
        return [Ob("%s.S.vc.%s" % (prop, group), "S", "structural", "z3 %s" % z3.get_version_string(), UNDECIDED, time.time() - t0, str(e))]
    dt = (time.time() - t0) / max(1, len(res))
    for name, ok, detail, model in res:
        ob = Ob("%s.S.vc.%s" % (prop, name), "S", "structural", "z3 %s" % z3.get_version_string(), DISCHARGED if ok else FAILED, dt, detail,
                signature=None if ok else name)
        if not ok and model is not None:
            ob.replay = {"kind": "atoms", "input": {"group": group, "atoms": model}}
            ob.detail += " — counterexample atoms: " + ", ".join("%s=%s" % (k, v) for k, v in sorted(model.items()) if v)
        obs.append(ob)
    return obs


def run_units(prop):
    """compare every summary contract that lists `prop` with the normal form of the current code"""
    obs = []
    sdir = os.path.join(VERIF, "contracts", "summary")
    for f in sorted(os.listdir(sdir)):
        if not f.endswith(".sum"):
            continue
        for u in parse_sum(os.path.join(sdir, f)):
            props = []
            for p in open(os.path.join(sdir, f)).read().split("@unit " + u["unit"] + " ")[1].split("\n")[0].split():
                if p.startswith("props="):
                    props = p[6:].split(",")
            if prop not in props:
                continue
            t0 = time.time()
            oid = "%s.S.unit.%s" % (prop, u["unit"])
            fns = ["rcgen::" + u["unit"]]
            try:
                nf, at, cu = normal_form(u["unit"], options=u["options"])
                want = tree_of(u["lines"])
                keep = not any(has_emission(x) for x in nf) or any(l[1].startswith("stmt ") for l in u["lines"])
                compare(nf, want, at, keep)
                obs.append(Ob(oid, "S", "structural", "z3 %s" % z3.get_version_string(), DISCHARGED, time.time() - t0,
                              "emission normal form of %s (%s:%s) agrees with its summary contract (%d lines; guards equivalent)" % (u["unit"], cu["file"].replace(REPO + "/", ""), cu["line"], len(u["lines"])), functions=fns))
            except Undecided as e:
                obs.append(Ob(oid, "S", "structural", "z3", UNDECIDED, time.time() - t0, str(e), functions=fns))
            except ValueError as e:
                obs.append(Ob(oid, "S", "structural", "z3", UNDECIDED, time.time() - t0, "contract file error: %s" % e, functions=fns))
            except Mismatch as e:
                ob = Ob(oid, "S", "structural", "z3 %s" % z3.get_version_string(), FAILED, time.time() - t0, str(e), functions=fns,
                        signature=str(e)[:160])
                if e.model is not None:
                    ob.replay = {"kind": "atoms", "input": {"group": "unit:" + u["unit"], "atoms": e.model}}
                obs.append(ob)
    return obs


if __name__ == "__main__" and len(__import__("sys").argv) > 1 and __import__("sys").argv[1] == "--check":
    import sys
    for prop in sys.argv[2:]:
        obs = run_units(prop)
        for g in ("cert", "csr", "crl"):
            obs += run_vcs(prop, g)
        for o in obs:
            print("%-95s %-10s %s" % (o.id, o.status, (o.detail or "")[:160]))
