#!/bin/bash
# developer aid: engine S only, over every benign refactoring (all properties) and every seeded change (its property)
cd /verif
echo "--- benign refactorings (must stay quiet)"
for d in benign/B*; do id=$(basename $d); rm -rf /var/tmp/verif-scratch/sw && mkdir -p /var/tmp/verif-scratch/sw && rsync -a --exclude target --exclude .git /repo/ /var/tmp/verif-scratch/sw/
  (cd /var/tmp/verif-scratch/sw && git init -q . 2>/dev/null; git apply /verif/$d/patch.diff 2>/dev/null) || { echo "$id: patch does not apply"; continue; }
  out=$(VERIF_REPO=/var/tmp/verif-scratch/sw python3-vt tools/engine_s.py --check C01 C02 C03 C04 C05 C06 C07 C08 C09 C10 C11 C13 C14 C15 C17 C18 C20 2>&1 | grep -v discharged | sed 's/^C[0-9]*\.//' | sort -u)
  echo "$id failed=$(echo "$out" | grep -c ' failed ') undecided=$(echo "$out" | grep -c ' undecided ')  $(echo "$out" | head -2 | cut -c1-150 | tr '\n' '|')"
done
echo "--- seeded changes (engine S alone)"
for d in seeded/C*; do id=$(basename $d); prop=${id%%-*}; rm -rf /var/tmp/verif-scratch/sw && mkdir -p /var/tmp/verif-scratch/sw && rsync -a --exclude target --exclude .git /repo/ /var/tmp/verif-scratch/sw/
  (cd /var/tmp/verif-scratch/sw && git init -q . 2>/dev/null; git apply /verif/$d/patch.diff 2>/dev/null) || { echo "$id: patch does not apply"; continue; }
  out=$(VERIF_REPO=/var/tmp/verif-scratch/sw python3-vt tools/engine_s.py --check $prop 2>&1 | grep -v discharged)
  echo -n "$id:$(echo "$out" | grep -c ' failed ')f/$(echo "$out" | grep -c ' undecided ')u  "
done; echo
rm -rf /var/tmp/verif-scratch/sw
