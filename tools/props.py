"""Per-property obligation lists. Each function returns the exit code of vlib.finish()."""
import json, os, shutil, subprocess, sys, time
from vlib import *
import engine_v

TRUSTED_COMMON = [
    "Verus 0.2026.09.13 + Z3 (engine V), Kani 0.68 / CBMC 6.11 + its SAT back end (engine K), z3 (engine S)",
    "rustc's borrow checker (frame conditions for & parameters)",
    "tools/vx (syn-based extractor: items are copied by span, never rewritten) and the drivers in /verif/tools",
]

DN_ASSUMPTIONS = [
    "assume_specification for Vec::retain (keeps exactly the elements the closure accepts, in order)",
    "#[derive(PartialEq, Eq, Hash, Clone)] on DnType/DnValue and #[derive(Default, PartialEq, Eq, Clone)] on DistinguishedName are replaced by trusted structural impls (eq is structural equality, clone is identity, default is the empty map and empty vector); the check aborts as undecided if those derives disappear",
    "obeys_key_model::<DnType>() (admit): DnType's Hash/Eq are consistent, so std HashMap behaves as vstd's Map model",
    "vstd's specifications of HashMap::{get,insert,remove,contains_key}, Vec::push, slice::Iter::next, Option::{map,and_then,is_some}",
    "Into::into is specified by its own contract (call_ensures): the stored value is whatever the argument converts to",
    "extraction drops doc comments and attributes (listed under coverage.extraction.dropped); #[cfg(feature)] evaluated with crypto on",
    "machine integers are mathematical only in spec code; no arithmetic occurs in the verified functions",
]


def dn_counterexample(max_len=5):
    """bounded search for a concrete failing history through the real code (replay crate); bounded, not proof"""
    ok, err = rebuild_replay()
    if not ok:
        return None, "replay crate does not build"
    p = os.path.join(CACHE, "dn_search-%d.json" % os.getpid())
    json.dump({"obligation": "dn_search", "kind": "dn_search", "input": {"max_len": max_len, "types": 3}}, open(p, "w"))
    rep, out = run_replay(p)
    os.remove(p)
    if rep is True:
        return out.get("observed", {}).get("found_input"), out
    return None, out


DN_WANTED = [
    # suffix, verus fn, repo fns, description
    ("dn.new", "DistinguishedName::new", ["rcgen::DistinguishedName::new"], "new(): well formed, enumerates nothing"),
    ("dn.get", "DistinguishedName::get", ["rcgen::DistinguishedName::get"], "get(ty) = Some(value enumerated for ty) iff ty is enumerated"),
    ("dn.remove", "DistinguishedName::remove", ["rcgen::DistinguishedName::remove"], "remove(ty): result = was present; order = old order without ty (relative order kept); map = old map minus ty; invariant kept"),
    ("dn.push", "DistinguishedName::push", ["rcgen::DistinguishedName::push"], "push(ty,v): present -> order unchanged; absent -> appended last; value of ty = converted argument; every other entry unchanged; invariant kept"),
    ("dn.iter", "DistinguishedName::iter", ["rcgen::DistinguishedName::iter"], "iter(): starts at the whole enumeration order"),
    ("dn.next", "DistinguishedNameIterator::next", ["rcgen::DistinguishedNameIterator::next"], "next(): yields (first remaining type, its value in the map), advances by one; None exactly at the end"),
    ("dn.lemma.types_distinct", "DistinguishedName::lemma_types_distinct", [], "invariant => every attribute type enumerated exactly once"),
    ("dn.lemma.lookup_agrees", "DistinguishedName::lemma_lookup_agrees", [], "lookup agrees with enumeration"),
    ("dn.lemma.eq_iff_view", "DistinguishedName::lemma_eq_iff_view", [], "structural equality of (map, order) <=> equality of enumerations"),
    ("dn.lemma.push_view", "DistinguishedName::lemma_push_view", [], "push contract restated over the whole view"),
    ("dn.lemma.remove_view", "lemma_remove_view", [], "remove contract restated over the whole view (filter)"),
    ("dn.lemma.empty_iff", "DistinguishedName::lemma_empty_iff", [], "map empty <=> enumeration empty"),
    ("dn.lemma.filter_ext", "lemma_filter_ext", [], "filter extensionality (helper)"),
    ("dn.lemma.filter_props", "lemma_filter_props", [], "filter membership / no-duplicates / identity (helper)"),
    ("dn.lemma.map_values_skip", "lemma_map_values_skip", [], "map_values commutes with skip (helper)"),
]


def dn_unit(prop, subset=None):
    """Run the DistinguishedName Verus unit; returns (obs, unit_res, verifier_outputs)."""
    ur = engine_v.run_unit("dn", canary=("d: DistinguishedName", "d.wf()"))
    # canary with requires d.wf()
    wanted = [w for w in DN_WANTED if subset is None or w[0] in subset]
    obs = engine_v.obligations(prop, ur, wanted)
    outs = {}
    bad = [o for o in obs if o.status in (FAILED, UNDECIDED) and o.signature]
    if bad:
        found, out = dn_counterexample()
        for o in bad:
            outs[o.id] = ur["stderr"]
            if found:
                o.replay = {"kind": "dn_ops", "input": found}
                if o.status == UNDECIDED:
                    o.status = FAILED
                    o.detail += " — concrete failing history found by the bounded replay search"
    if ur["status"] == "verified":
        if ur["canary_ok"] is False:
            obs.append(Ob(prop + ".dn.vacuity_canary", "V", "scan", "verus/z3", UNDECIDED, 0, "canary `requires d.wf() ensures false` verified: assumptions are contradictory"))
        else:
            obs.append(Ob(prop + ".dn.vacuity_canary", "V", "scan", "verus/z3", DISCHARGED, 0, "canary `requires d.wf() ensures false` is rejected by verus (assumptions are not contradictory); wf() is inhabited by new()'s postcondition"))
    return obs, ur, outs


def extraction_extra(ur):
    rep = ur.get("report") or {}
    return {"extraction": {"unit": ur["unit"], "items": rep.get("items", []), "dropped_count": len(rep.get("dropped", [])),
                           "dropped_kinds": sorted(set(d["attr"] for d in rep.get("dropped", []))),
                           "splices": rep.get("splices"), "lost_anchors": rep.get("lost", []),
                           "text_identity": "every item is copied by byte span from /repo's working tree; annotation splices only insert text (requires/ensures, closure parameter types + ensures, proof blocks, `-> (name: T)`)"},
            "assumptions_in_assembled_file": ur.get("assumptions", [])}


def C20(tier, t0):
    obs, ur, outs = dn_unit("C20")
    # bounded companion (labelled bounded): real code vs model on all short histories
    found, out = dn_counterexample(5 if tier == "quick" else 6)
    obs.append(Ob("C20.dn.histories_bounded", "K", "bounded", "native replay crate", FAILED if found else DISCHARGED, 0,
                  "all push/remove histories up to length %d over 3 types x 2 values against an association-list model (%s histories)" % (5 if tier == "quick" else 6, out.get("observed", {}).get("histories_tried")),
                  bound="history length <= %d, 3 attribute types, 2 values" % (5 if tier == "quick" else 6),
                  replay={"kind": "dn_ops", "input": found} if found else None, signature="model disagreement"))
    return finish("C20", tier, obs, t0, "proof",
                  functions=[], assumptions=DN_ASSUMPTIONS, trusted_base=TRUSTED_COMMON,
                  checker_cmd="./check C20 --tier %s   (assembles .cache/verus/dn.rs from /repo by span + contracts/verus/dn.vspec; verus dn.rs --output-json --time)" % tier,
                  explanation="Representation invariant + abstract-view postconditions of the real DistinguishedName::{new,get,remove,push,iter} and DistinguishedNameIterator::next, discharged by Verus for all edit histories (induction over history length is implicit: every operation preserves wf()). Encoded order = enumeration order is decided structurally by engine S.",
                  extra=extraction_extra(ur), verifier_outputs=outs)


PROPS = {"C20": C20}


def main(argv):
    if not argv:
        print(__doc__)
        return 2
    if argv[0] == "--clean":
        shutil.rmtree(os.path.join(CACHE, "verus"), ignore_errors=True)
        shutil.rmtree(SCRATCH_ROOT, ignore_errors=True)
        return 0
    if argv[0] == "--replay":
        ensure_tools()
        rep, out = run_replay(argv[1])
        print(json.dumps(out, indent=1))
        return 1 if rep is True else (0 if rep is False else 2)
    prop = argv[0]
    tier = os.environ.get("VERIF_TIER", "quick")
    if "--tier" in argv:
        tier = argv[argv.index("--tier") + 1]
    if prop not in PROPS:
        print("no check for %s" % prop)
        return 2
    ensure_tools()
    t0 = time.time()
    return PROPS[prop](tier, t0)
