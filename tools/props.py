"""Per-property obligation lists. Each property = V units + K harnesses (selected by @props in
contracts/kani/*.rs) + S summary contracts (selected by props= in contracts/summary/*.sum) + S
property-level VCs + assumption scans; vlib.finish() classifies and writes the evidence."""
import json, os, re, shutil, subprocess, sys, time
from vlib import *
import engine_v

TRUSTED_COMMON = [
    "Verus 0.2026.09.13 + Z3 (engine V); Kani 0.68 / CBMC 6.11 + CaDiCaL (engine K); z3 (engine S)",
    "rustc's type and borrow checker (frame conditions of & parameters; exhaustiveness of match)",
    "tools/vx (syn-based extractor: source text is copied by span, never rewritten), tools/engine_s.py (symbolic normal form + VC generator, written for this project and tested on deliberately broken scratch copies), tools/engine_k.py, tools/engine_v.py",
    "the summary contracts in contracts/summary/*.sum and the RFC constants in contracts/kani/*.rs were transcribed by hand from RFC 5280 / 2986 / 3279 / 4055 / 5480 / 5758 / 7468 / 8410 and X.680 / X.690",
]

ASSUME = {
    "yasna": "yasna's DER writers produce the TLV their name says (checked by K on the real yasna code only for the shapes of the byte-level harnesses: short definite lengths, BOOLEAN TRUE = FF, BIT STRING padding, OID arcs of the tables)",
    "crypto": "ring / aws-lc-rs: `digest` and `sign` are FFI and outside both verifiers; a signature returned by the signer is assumed valid for the message and key it was asked to sign",
    "x509": "x509-parser (nom parsers, verify_signature) is outside both verifiers",
    "pem": "the pem and base64 crates (64-column wrapping, padding, strict decoding) are assumed correct: a Kani run through them does not terminate",
    "kcfg": "engine K runs the crypto-less configuration of rcgen (--no-default-features, + pem / x509-parser where a harness says so); code under cfg(feature = \"crypto\") is reached only by engines V and S",
    "hash": "std's RandomState::new (getrandom FFI) is stubbed by a fixed state in K harnesses that build a DistinguishedName; independence of the hash seed is what engine V proves",
    "s_abs": "engine S abstracts byte-level encoding (yasna) and argument values of primitives: it decides which elements are written, in which order, under which condition, with which tag / criticality constant / argument expression",
    "threads": "no verifier here models threads: schedules are not decided",
}

DN_ASSUMPTIONS = [
    "assume_specification for Vec::retain (keeps exactly the elements the closure accepts, in order)",
    "#[derive(PartialEq, Eq, Hash, Clone)] on DnType/DnValue and #[derive(Default, PartialEq, Eq, Clone)] on DistinguishedName are replaced by trusted structural impls (eq is structural equality, clone is identity, default is the empty map and empty vector); the check is undecided if those derives disappear",
    "obeys_key_model::<DnType>() (admit): DnType's Hash/Eq are consistent, so std HashMap behaves as vstd's Map model",
    "vstd's specifications of HashMap::{get,insert,remove,contains_key}, Vec::push, slice::Iter::next, Option::{map,and_then,is_some}",
    "Into::into is specified by its own contract (call_ensures): the stored value is whatever the argument converts to",
    "extraction drops doc comments and attributes (listed under coverage.extraction); #[cfg(feature)] evaluated with crypto on",
]


def dn_counterexample(max_len=5):
    """bounded search for a concrete failing history through the real code (replay crate); bounded, not proof"""
    ok, err = rebuild_replay()
    if not ok:
        return None, {"error": "replay crate does not build"}
    p = os.path.join(CACHE, "dn_search-%d.json" % os.getpid())
    os.makedirs(CACHE, exist_ok=True)
    json.dump({"obligation": "dn_search", "kind": "dn_search", "input": {"max_len": max_len, "types": 3}}, open(p, "w"))
    rep, out = run_replay(p)
    os.remove(p)
    if rep is True:
        return out.get("observed", {}).get("found_input"), out
    return None, out


DN_WANTED = [
    ("dn.new", "DistinguishedName::new", ["rcgen::DistinguishedName::new"], "new(): well formed, enumerates nothing"),
    ("dn.get", "DistinguishedName::get", ["rcgen::DistinguishedName::get"], "get(ty) = Some(value enumerated for ty) iff ty is enumerated"),
    ("dn.remove", "DistinguishedName::remove", ["rcgen::DistinguishedName::remove"], "remove(ty): result = was present; order = old order without ty (relative order kept); map = old map minus ty; invariant kept"),
    ("dn.push", "DistinguishedName::push", ["rcgen::DistinguishedName::push"], "push(ty,v): present -> order unchanged; absent -> appended last; value of ty = converted argument; every other entry unchanged; invariant kept"),
    ("dn.iter", "DistinguishedName::iter", ["rcgen::DistinguishedName::iter"], "iter(): starts at the whole enumeration order"),
    ("dn.next", "DistinguishedNameIterator::next", ["rcgen::DistinguishedNameIterator::next"], "next(): yields (first remaining type, its value in the map), advances by one; None exactly at the end"),
    ("dn.lemma.types_distinct", "DistinguishedName::lemma_types_distinct", [], "invariant => every attribute type enumerated exactly once"),
    ("dn.lemma.lookup_agrees", "DistinguishedName::lemma_lookup_agrees", [], "lookup agrees with enumeration"),
    ("dn.lemma.eq_iff_view", "DistinguishedName::lemma_eq_iff_view", [], "structural equality of (map, order) <=> equality of enumerations"),
    ("dn.lemma.push_view", "DistinguishedName::lemma_push_view", [], "push contract restated over the whole view"),
    ("dn.lemma.remove_view", "lemma_remove_view", [], "remove contract restated over the whole view (filter)"),
    ("dn.lemma.empty_iff", "DistinguishedName::lemma_empty_iff", [], "map empty <=> enumeration empty"),
    ("dn.lemma.filter_ext", "lemma_filter_ext", [], "filter extensionality (helper)"),
    ("dn.lemma.filter_props", "lemma_filter_props", [], "filter membership / no-duplicates / identity (helper)"),
    ("dn.lemma.map_values_skip", "lemma_map_values_skip", [], "map_values commutes with skip (helper)"),
]


def dn_unit(prop, subset=None):
    """Run the DistinguishedName Verus unit; returns (obs, unit_res, verifier_outputs)."""
    ur = engine_v.run_unit("dn", canary=("d: DistinguishedName", "d.wf()"))
    wanted = [w for w in DN_WANTED if subset is None or w[0] in subset]
    outs = {}
    if ur["status"] == "undecided":
        # the unit could not be assembled or Verus could not process it (lost item / derive, unsupported construct):
        # undecided as a whole — unless the real code demonstrably disagrees with the abstract model
        found, out = dn_counterexample()
        ob = Ob(prop + ".dn.unit", "V", "proof", "verus / z3", UNDECIDED, 0,
                "the DistinguishedName unit cannot be verified on this tree: %s" % (ur.get("detail") or ur.get("stderr", "")[:300]),
                functions=[f for w in wanted for f in w[2]])
        if found:
            ob.status = FAILED
            ob.signature = "model disagreement on a concrete history"
            ob.replay = {"kind": "dn_ops", "input": found}
            ob.detail += " — and the bounded replay search found a concrete input on which the real code violates the contract"
            outs[ob.id] = (ur.get("detail") or "") + "\n" + (ur.get("stderr") or "") + "\n" + json.dumps(out)[:1500]
        return [ob], ur, outs
    obs = engine_v.obligations(prop, ur, wanted)
    bad = [o for o in obs if o.status in (FAILED, UNDECIDED)]
    if bad:
        found, out = dn_counterexample()
        for o in bad:
            outs[o.id] = ur["stderr"] or ur.get("detail", "")
            if found:
                o.replay = {"kind": "dn_ops", "input": found}
                if o.status == UNDECIDED:
                    o.status = FAILED
                    o.signature = o.signature or "model disagreement on a concrete history"
                    o.detail += " — concrete failing history found by the bounded replay search"
    if ur["status"] == "verified":
        if ur["canary_ok"] is False:
            obs.append(Ob(prop + ".dn.vacuity_canary", "V", "scan", "verus/z3", UNDECIDED, 0, "canary `requires d.wf() ensures false` verified: assumptions are contradictory"))
        else:
            obs.append(Ob(prop + ".dn.vacuity_canary", "V", "scan", "verus/z3", DISCHARGED, 0, "canary `requires d.wf() ensures false` is rejected by verus (assumptions are not contradictory); wf() is inhabited by new()'s postcondition"))
    return obs, ur, outs


def extraction_extra(ur):
    rep = ur.get("report") or {}
    return {"extraction": {"unit": ur["unit"], "items": rep.get("items", []), "dropped_count": len(rep.get("dropped", [])),
                           "dropped_kinds": sorted(set(d["attr"] for d in rep.get("dropped", []))),
                           "splices": rep.get("splices"), "lost_anchors": rep.get("lost", []),
                           "text_identity": "every item is copied by byte span from /repo's working tree; annotation splices only insert text (requires/ensures, closure parameter types + ensures, proof blocks, `-> (name: T)`)"},
            "assumptions_in_assembled_file": ur.get("assumptions", [])}


# ------------------------------------------------------------------ replay decoders
class Rd:
    """reader over Kani's concrete playback values: one entry per primitive kani::any() (arrays yield one entry per element)"""

    def __init__(self, vals):
        self.b = [x for v in vals for x in v]
        self.i = 0

    def take(self, n, signed=False):
        v = int.from_bytes(bytes(self.b[self.i:self.i + n]), "little", signed=signed)
        self.i += n
        return v

    def bytes(self, n):
        v = list(self.b[self.i:self.i + n])
        self.i += n
        return v

    def dt(self):
        """any_dt(): year i32, ordinal u16, h u8, m u8, s u8, ns u32, oh i8, om i8, os i8"""
        return {"year": self.take(4, True), "ordinal": self.take(2), "h": self.take(1), "m": self.take(1), "s": self.take(1),
                "ns": self.take(4), "off": [self.take(1, True), self.take(1, True), self.take(1, True)]}


def dec_time(vals):
    return {"kind": "time", "input": {"dt": Rd(vals).dt()}}


def dec_crl_order(vals):
    r = Rd(vals)
    a = r.dt()
    b = r.dt()
    return {"kind": "crl", "input": {"this": a, "next": b}}


def dec_crl_ku(vals):
    return {"kind": "crl", "input": {"this": {"year": 2024, "ordinal": 1}, "next": {"year": 2024, "ordinal": 2}, "issuer_ku": Rd(vals).bytes(3)}}


def dec_cidr4(vals):
    r = Rd(vals)
    return {"kind": "cidr", "input": {"addr": r.bytes(4), "prefix": r.take(1)}}


def dec_cidr6(vals):
    r = Rd(vals)
    return {"kind": "cidr", "input": {"addr": r.bytes(16), "prefix": r.take(1)}}


def dec_ku9(vals):
    return {"kind": "cert_params", "input": {"key_usages": sorted(set(x % 9 for x in Rd(vals).bytes(9)))}}


def dec_str(ty):
    def f(vals):
        return {"kind": "string", "input": {"type": ty, "cp": Rd(vals).take(4)}}
    return f


def dec_bytes(ty, n):
    def f(vals):
        return {"kind": "string_bytes", "input": {"type": ty, "bytes": Rd(vals).bytes(n)}}
    return f


def dec_csr_serial(vals):
    return {"kind": "csr_refusal", "input": {"serial_hex": "".join("%02x" % b for b in Rd(vals).bytes(2))}}


def dec_csr_is_ca(vals):
    r = Rd(vals)
    k, n = r.take(1) % 3, r.take(1)
    return {"kind": "csr_refusal", "input": {"is_ca": ["explicit", "ca", "ca:%d" % n][k]}}


def static(inp):
    f = lambda vals: {"kind": "csr_refusal", "input": inp}
    f.static = True   # the harness has no symbolic input: the replay input is the harness's fixed shape
    return f


DECODERS = {"csr_serial": dec_csr_serial, "csr_is_ca": dec_csr_is_ca, "csr_none": static({}), "csr_nc": static({"nc": {}}),
            "csr_crldp": static({"crldp": [[]]}), "csr_aki": static({"aki": True}),
            "time": dec_time, "crl_order": dec_crl_order, "crl_ku": dec_crl_ku, "cidr4": dec_cidr4, "cidr6": dec_cidr6, "key_usage9": dec_ku9,
            "str_printable": dec_str("printable"), "str_ia5": dec_str("ia5"), "str_teletex": dec_str("teletex"), "str_bmp": dec_str("bmp"),
            "str_universal": dec_str("universal"), "bytes_bmp3": dec_bytes("bmp", 3), "bytes_bmp4": dec_bytes("bmp", 4), "bytes_universal": dec_bytes("universal", 4)}


def atoms_to_replay(group, atoms):
    """turn a z3 model over engine-S atoms into concrete parameters for the native replay driver"""
    a = lambda k, d: atoms.get(k, d)
    if group in ("cert", "csr") or group.startswith("unit:CertificateParams"):
        inp = {"aki": bool(a("atom:self.use_authority_key_identifier_extension", False))}
        if not a("empty:self.subject_alt_names", True):
            inp["san"] = ["dns:a.example"]
        if not a("empty:self.key_usages", True):
            inp["key_usages"] = [0]
        if not a("empty:self.extended_key_usages", True):
            inp["eku"] = ["server"]
        if a("is:self.is_ca:Ca", False):
            inp["is_ca"] = "ca:1" if a("is:self.is_ca#Ca.0:Constrained", False) else "ca"
        elif a("is:self.is_ca:ExplicitNoCa", False):
            inp["is_ca"] = "explicit"
        if a("some:self.name_constraints", False):
            empty = a("empty:unwrap(self.name_constraints)", True)
            inp["nc"] = {"permitted": [] if empty or a("empty:unwrap(self.name_constraints).permitted_subtrees", False) and not a("empty:unwrap(self.name_constraints).excluded_subtrees", True) else ["dns:example.com"],
                         "excluded": ["dns:bad.example"] if (not empty and not a("empty:unwrap(self.name_constraints).excluded_subtrees", True)) else []}
            if empty:
                inp["nc"] = {"permitted": [], "excluded": []}
        if not a("empty:self.crl_distribution_points", True):
            inp["crldp"] = [["http://crl.example/ca.crl"]]
        if not a("empty:self.custom_extensions", True):
            inp["custom"] = [{"oid": [1, 2, 3, 4], "critical": False, "content_hex": "0500"}]
        if a("some:self.serial_number", False):
            inp["serial_hex"] = "0102"
        if not a("atom:self.distinguished_name.entries.is_empty()", False):
            inp["dn"] = [["CN", "x"]]
        return {"kind": "csr_refusal" if group == "csr" or "serialize_request" in group else "cert_params", "input": inp}
    if group == "crl" or group.startswith("unit:RevokedCertParams") or group.startswith("unit:CertificateRevocationList"):
        ent = {"serial_hex": "05", "rev": {"year": 2024, "ordinal": 1}}
        if a("some:self.reason_code", False):
            ent["reason"] = 0 if a("is:unwrap(self.reason_code):Unspecified", False) else 1
        if a("some:self.invalidity_date", False):
            ent["inv"] = {"year": 2023, "ordinal": 300}
        inp = {"this": {"year": 2024, "ordinal": 1}, "next": {"year": 2024, "ordinal": 30}, "revoked": [] if a("empty:self.revoked_certs", False) else [ent]}
        if a("some:self.issuing_distribution_point", False):
            inp["idp"] = {"uris": ["http://crl.example/"], "scope": "user" if a("some:unwrap(self.issuing_distribution_point).scope", False) or a("some:self.scope", False) else None}
        return {"kind": "crl", "input": inp}
    return None


# ------------------------------------------------------------------ generic runner
def run(prop, tier, t0, spec):
    obs, outs, extra = [], {}, {}
    assumptions = list(spec.get("assumptions", []))
    # engine V
    if spec.get("v_dn"):
        o, ur, ou = dn_unit(prop, spec["v_dn"] if isinstance(spec["v_dn"], (list, tuple, set)) else None)
        obs += o
        outs.update(ou)
        extra.update(extraction_extra(ur))
        assumptions += DN_ASSUMPTIONS
        if spec.get("dn_bounded"):
            n = 5 if tier == "quick" else 6
            found, out = dn_counterexample(n)
            obs.append(Ob(prop + ".dn.histories_bounded", "K", "bounded", "native replay crate (bounded, not proof)", FAILED if found else DISCHARGED, 0,
                          "all push/remove histories up to length %d over 3 types x 2 values, real code against an association-list model (%s histories)" % (n, out.get("observed", {}).get("histories_tried")),
                          bound="history length <= %d, 3 attribute types, 2 values" % n,
                          replay={"kind": "dn_ops", "input": found} if found else None, signature="model disagreement"))
    # engine S
    if spec.get("s", True):
        import engine_s
        s_obs = engine_s.run_units(prop)
        for g in spec.get("vc", ()):
            s_obs += engine_s.run_vcs(prop, g)
        for extra_fn in spec.get("s_extra", ()):
            s_obs += extra_fn(prop)
        for o in s_obs:
            if o.replay and o.replay.get("kind") == "atoms":
                o.replay = atoms_to_replay(o.replay["input"]["group"], o.replay["input"]["atoms"])
            if o.status == FAILED:
                outs[o.id] = o.detail
        obs += s_obs
    # engine K
    if spec.get("k", True):
        import engine_k
        k_obs, k_outs, info = engine_k.run_property(prop, tier, decoders=DECODERS)
        obs += k_obs
        outs.update(k_outs)
        extra["kani"] = info
        stubs = sorted(set(x for v in info.get("stubs", {}).values() for x in v))
        if stubs:
            assumptions.append("Kani stubs used by harnesses of this property (each stubbed function has its own obligation or is listed above): " + "; ".join(stubs))
    for fn in spec.get("scans", ()):
        obs += fn(prop)
    level = spec.get("level", "proof")
    return finish(prop, tier, obs, t0, level, functions=spec.get("functions", []), assumptions=assumptions + [ASSUME[k] for k in spec.get("assume", [])],
                  trusted_base=TRUSTED_COMMON, checker_cmd="./check %s --tier %s" % (prop, tier), explanation=spec["explanation"],
                  extra=extra, verifier_outputs=outs)


# ------------------------------------------------------------------ assumption scans / extra S checks
def scan_purity(prop):
    """C15 assumption check (a scan, not a proof): no global mutable state, interior mutability or unsafe in rcgen/src"""
    pats = [r'\bstatic\s+mut\b', r'\bunsafe\b', r'\bRefCell\b', r'\bCell<', r'\bMutex\b', r'\bRwLock\b', r'\bAtomic[A-Z]', r'\bthread_local!', r'\bOnceCell\b', r'\blazy_static!', r'\bOnceLock\b']
    hits = []
    d = os.path.join(REPO, "rcgen", "src")
    for f in sorted(os.listdir(d)):
        if not f.endswith(".rs"):
            continue
        text = open(os.path.join(d, f)).read()
        # drop comments and the test modules
        text = re.sub(r'//[^\n]*', '', text)
        for n, line in enumerate(text.splitlines(), 1):
            for p in pats:
                if re.search(p, line) and "forbid(unsafe_code)" not in line:
                    hits.append("%s:%d: %s" % (f, n, line.strip()[:80]))
    ok = not hits
    return [Ob(prop + ".scan.no_shared_mutable_state", "scan", "scan", "text scan", DISCHARGED if ok else UNDECIDED, 0,
               "no `static mut`, `unsafe`, Cell/RefCell/Mutex/RwLock/atomics/thread_local/OnceCell in rcgen/src" if ok else "construct found, purity argument no longer applies: " + "; ".join(hits[:5]))]


def s_order(unit, first_pat, then_pat, name, what):
    """dominance on the raw statement order of a function: every statement matching first_pat precedes the first matching then_pat"""
    def f(prop):
        import engine_s
        t0 = time.time()
        try:
            units, _ = engine_s.skeleton()
            if unit not in units:
                raise engine_s.Undecided("lost anchor: %s not found" % unit)
            texts = []

            def flat(nodes):
                for n in nodes:
                    if n["k"] in ("let",):
                        texts.append(engine_s.canon(n["expr"]))
                    elif n["k"] in ("stmt", "macro"):
                        texts.append(engine_s.canon(n["text"]))
                    elif n["k"] == "if":
                        texts.append("if:" + engine_s.canon(n.get("cond_text", "")))
                        flat(n["then"])
                        flat(n["else"])
                    elif n["k"] == "for":
                        flat(n["body"])
                    elif n["k"] == "match":
                        for a in n["arms"]:
                            flat(a["body"])
                    elif n["k"] == "return":
                        texts.append("return " + engine_s.canon(n["expr"]))
            flat(units[unit]["body"])
            # positions are (statement index, offset inside the statement): a method chain evaluates left to right
            firsts = [(i, m.start()) for i, t in enumerate(texts) for m in re.finditer(first_pat, t)]
            thens = [(i, m.start()) for i, t in enumerate(texts) for m in re.finditer(then_pat, t)]
            if not firsts or not thens:
                raise engine_s.Undecided("lost anchor in %s: no statement matches %s / %s" % (unit, first_pat, then_pat))
            ok = max(firsts) < min(thens)
            return [Ob("%s.S.order.%s" % (prop, name), "S", "structural", "statement order (vx skel)", DISCHARGED if ok else FAILED, time.time() - t0,
                       what + (" — holds: positions %s precede %s" % (firsts, min(thens)) if ok else " — violated: statement %d (`%s`) does not precede statement %d (`%s`)" % (max(firsts)[0], texts[max(firsts)[0]][:60], min(thens)[0], texts[min(thens)[0]][:60])),
                       functions=[unit], signature=None if ok else name)]
        except engine_s.Undecided as e:
            return [Ob("%s.S.order.%s" % (prop, name), "S", "structural", "statement order (vx skel)", UNDECIDED, time.time() - t0, str(e))]
    return f


SPECS = {}


def prop(pid, **kw):
    SPECS[pid] = kw


prop("C20", v_dn=True, dn_bounded=True, k=True, level="proof",
     explanation="Representation invariant + abstract-view postconditions of the real DistinguishedName::{new,get,remove,push,iter} and DistinguishedNameIterator::next, discharged by Verus for all edit histories (every operation preserves wf(), so induction over the history is implicit); lemmas restate them over the whole enumeration. Encoded order = enumeration order: the name writer iterates `dn.iter()` once, one SET{SEQ{OID,value}} per item (engine S), attribute OIDs per RFC table (engine K).",
     assume=["s_abs", "kcfg"])

prop("C15", v_dn=["dn.new", "dn.remove", "dn.push", "dn.iter", "dn.next", "dn.lemma.eq_iff_view"], k=True, level="other", scans=[scan_purity],
     explanation="Determinism of name enumeration: the enumeration is a function of the edit history only (V: postconditions of push/remove/iter determine order and values, no dependence on the hash seed). Generation returns the parameters it was given: `signed_by`/`self_signed`/CRL `signed_by` move `self` into the result (S: result expression `params:self`; K: CRL params returned unchanged with the serializer stubbed). Writers take &self / & parameters only (rustc). Absence of shared mutable state is an assumption scan. Thread interleavings are NOT decided.",
     assume=["threads", "s_abs", "kcfg", "hash"])

prop("C03", v_dn=["dn.lemma.types_distinct", "dn.lemma.eq_iff_view", "dn.push", "dn.remove", "dn.iter", "dn.next"], k=True, level="other",
     explanation="Issuer name and AKI sources: every construction of the issuer view binds the issuer certificate's own name / key-id method / key (S: signed_by x3, self_signed), the issuer and subject names are written by the same writer from those values (S), the AKI value is PreSpecified(aki) => aki else derive(issuer method, issuer key SPKI) and the CA's SKI is derive(own method, own SPKI) (S + K keyid.prespecified, aki.bytes). Name enumeration is a function of the view (V). REFUTATION kept as known finding: a well-formed name cannot hold a repeated attribute type (V lemma), so imported subjects such as DC=com,DC=example cannot be preserved. Import path and validator verdicts are NOT decided.",
     assume=["x509", "crypto", "s_abs", "kcfg"])

prop("C02", v_dn=["dn.push", "dn.remove", "dn.iter", "dn.next", "dn.lemma.lookup_agrees"], vc=["cert"], level="proof",
     explanation="Leaf functions against RFC tables (K, full domains: key-usage bits, GeneralName tags, EKU / attribute OIDs, CIDR masks for all 256 prefixes, pre-specified key id, serial conversions, SPKI export); extension writers tied to bytes for fixed shapes (K: extension wrapper, AKI, key usage value for all 511 sets with the bit-string writer replaced by its verified contract); TBSCertificate composition (S): every writer function's emission normal form equals its RFC 5280 summary contract, and the generated VCs `present iff requested`, `at most once`, criticality, `[3] iff any requested`, `SKI in every CA`, v3.",
     assume=["yasna", "crypto", "s_abs", "kcfg", "hash"])

prop("C05", v_dn=["dn.lemma.empty_iff", "dn.new", "dn.remove", "dn.push"], vc=["cert", "crl", "csr"], level="proof",
     explanation="Structural MUSTs as generated VCs over the emission normal forms (S): v3, criticality constants, empty name constraints omitted, no OID twice, CRL v2 with mandatory fields / AKI / CRL number, critical IDP when requested, revokedCertificates absent when empty, CSR version 0 with [0] attributes always and at most one extension request. SAN critical <=> subject empty: the writer passes `entries.is_empty()` (S) and map empty <=> enumeration empty under the invariant (V). Automatic serial: statement sequence digest -> first 20 octets -> clear top bit -> positive INTEGER (S, structural); `non-zero` is not decided (needs a property of SHA-256).",
     assume=["yasna", "crypto", "s_abs", "kcfg"])

prop("C07", vc=["csr"], level="proof", v_dn=["dn.remove", "dn.push", "dn.iter", "dn.next"],
     explanation="Refusal rule: guard of Err(UnsupportedInCsr) <=> disjunction of the five unsupported fields, it dominates the signer call, and every supported parameter set is signed (S, all combinations, propositional); each unsupported field alone and none (K, six shapes, signer replaced by a recorder). CertificationRequestInfo shape, extension request present iff any of the four sources is non-empty, its contents, caller attributes verbatim (S); the subject name is enumerated in insertion order (V). Parse-back round trip is NOT decided (x509-parser) except for the IP-octet kernel (K).",
     assume=["yasna", "x509", "s_abs", "kcfg", "hash"])

prop("C08", vc=["crl"], level="proof", v_dn=["dn.remove", "dn.push", "dn.iter", "dn.next"],
     explanation="Refusal guards on the encoded instants and on cRLSign (K, all instants / all usage triples, serializer replaced by a recorder; S: guard expressions); TBSCertList and entry shape incl. GeneralizedTime invalidityDate, reason present when given / absent when none, entry extension wrapper never empty, IDP scope tags (S + K bytes for the three scopes); reason code numbers (K); the issuer name is enumerated in insertion order (V). Revocation verdicts of external checkers are NOT decided.",
     assume=["yasna", "crypto", "s_abs", "kcfg", "hash"])

prop("C09", level="proof",
     explanation="Form and instant of the shared time writer for EVERY OffsetDateTime the time crate admits whose UTC year is in 0..=9999 (K, two full-domain harnesses through the real time and yasna code: UTCTime iff 1950..=2049, digits = instant in UTC truncated to seconds, trailing Z, no fraction); nanosecond stripping keeps the instant (K); every time field (notBefore, notAfter, thisUpdate, nextUpdate, revocationDate) is written by that function from the corresponding parameter (S).",
     assume=["s_abs", "kcfg"])

prop("C13", level="proof",
     explanation="Admission <=> alphabet and lossless transfer encoding for every Unicode scalar value as a one-character string, per type (K, full domain); byte constructors for every input of length 0..=4 (K); accepted IA5 values satisfy yasna's writer precondition (K); the name writer passes the stored bytes / text under the type's string tag (S). Multi-character strings: bounded (thorough tier). Unbounded length is NOT decided (byte loops).",
     assume=["yasna", "s_abs", "kcfg"])

prop("C01", level="proof",
     explanation="sign-and-wrap contract of sign_der (K, fixed shape, symbolic content): the signer sees exactly the embedded TBS bytes, outer AlgorithmIdentifier of the signing key, signature wrapped unmodified, signer / body error => Err and nothing signed; AlgorithmIdentifier tables = RFC bytes (K); inner AlgorithmIdentifier written from the same key object that signs (S: certificate, CRL, CSR units); per-key-kind signing arms pass `msg` to the signer and its result to the BIT STRING writer, algorithm <-> signing-constant pairing of the key loaders pinned (S). Validity of ring / aws-lc-rs signatures is assumed.",
     assume=["crypto", "yasna", "s_abs", "kcfg"])

prop("C11", level="other",
     explanation="Algorithm equality / hash / lookup-by-OID mutually consistent over the whole table, unknown OIDs rejected (K); exported SubjectPublicKeyInfo = RFC AlgorithmIdentifier + BIT STRING of the raw key for Ed25519 / P-256 / RSA (K, fixed key length); loaders pair each algorithm with its signing constant, accessors return the stored algorithm / key bytes (S). Save/load through ring / aws-lc-rs is NOT decided (FFI).",
     assume=["crypto", "yasna", "s_abs", "kcfg"])

prop("C04", vc=[], level="other",
     explanation="rcgen's own canonicity duties: named-bit-list length (K, all 511 sets), DEFAULT values omitted (S: ExplicitNoCa writes an empty SEQUENCE; critical written only when true), IDP scope TRUE only (S + K bytes), raw pass-through of caller DER (S: write_der(content()) / write_der(values)), minimal positive INTEGERs for serial / CRL number (S: write_bigint_bytes(.., true)), SET OF for CSR attributes (S), time forms (C09). yasna primitives used by rcgen are checked on the real yasna code for small shapes (K: BIT STRING padding, extension wrapper bytes). yasna as a whole is assumed.",
     assume=["yasna", "s_abs", "kcfg", "hash"])


# ------------------------------------------------------------------ C10: call sites of asserting DER writers
ASSERTING = {"write_ia5_string", "write_printable_string", "write_oid", "write_utctime", "write_generalized_time",
             "write_numeric_string", "write_visible_string", "write_bitvec_bytes"}
# (unit, writer, argument) -> ("validated", why) | ("raw", replay site, witness)
CALLSITES = {
    ("CertificateParams::write_extension_request_attribute", "write_oid", "ObjectIdentifier::from_slice(oid::PKCS_9_AT_EXTENSION_REQUEST,)"): ("validated", "constant OID"),
    ("CertificateParams::write_key_usage", "write_bitvec_bytes", "*"): ("validated", "precondition proved by K obligation ku.extension_value"),
    ("CertificateParams::write_subject_alt_names", "write_ia5_string", "alt(elem(self.subject_alt_names)#Rfc822Name.0|elem(self.subject_alt_names)#DnsName.0|elem(self.subject_alt_names)#URI.0).as_str()"): ("validated", "Ia5String (K: ia5.accepted_serialises)"),
    ("KeyPair::sign", "write_bitvec_bytes", "*"): ("validated", "bit length = 8 * byte length"),
    ("serialize_public_key_der", "write_bitvec_bytes", "*"): ("validated", "bit length = 8 * byte length"),
    ("SignatureAlgorithm::write_alg_ident", "write_oid", "self.alg_ident_oid()"): ("validated", "static algorithm table (K: algid.table.*)"),
    ("SignatureAlgorithm::write_oids_sign_alg", "write_oid", "ObjectIdentifier::from_slice(elem(self.oids_sign_alg))"): ("validated", "static algorithm table (K: algid.table.*)"),
    ("SignatureAlgorithm::write_params", "write_oid", "ObjectIdentifier::from_slice(self.params#RsaPss.hash_algorithm)"): ("validated", "static algorithm table"),
    ("SignatureAlgorithm::write_params", "write_oid", "ObjectIdentifier::from_slice(ID_MGF1)"): ("validated", "constant OID"),
    ("write_distinguished_name", "write_ia5_string", "elem(dn).1#Ia5String.0.as_str()"): ("validated", "Ia5String (K: ia5.accepted_serialises)"),
    ("write_dt_utc_or_generalized", "write_utctime", "*"): ("validated", "K: time.form / time.instant under the year precondition; any year: finding time.any_year_no_panic"),
    ("write_dt_utc_or_generalized", "write_generalized_time", "*"): ("validated", "K: time.form / time.instant under the year precondition; any year: finding time.any_year_no_panic"),
    ("RevokedCertParams::write_der", "write_generalized_time", "dt_to_generalized(unwrap(self.invalidity_date))"): ("raw", "time_year_inv", "invalidity date with a year outside 0..=9999"),
    ("RevokedCertParams::write_der", "write_generalized_time", "GeneralizedTime::from_datetime(dt_strip_nanos(unwrap(self.invalidity_date)))"): ("raw", "time_year_inv", "invalidity date with a year outside 0..=9999"),
    ("CertificateParams::serialize_der_with_signer", "write_oid", "ObjectIdentifier::from_slice(elem(self.extended_key_usages).oid())"): ("raw", "eku_other_oid", "ExtendedKeyUsagePurpose::Other(vec![1])"),
    ("CertificateParams::write_extended_key_usage", "write_oid", "ObjectIdentifier::from_slice(elem(self.extended_key_usages).oid())"): ("raw", "eku_other_oid", "ExtendedKeyUsagePurpose::Other(vec![1]) in a CSR"),
    ("CertificateParams::serialize_request_with_attributes", "write_oid", "ObjectIdentifier::from_slice(elem(attrs).oid)"): ("raw", "csr_attr_oid", "Attribute { oid: &[1], .. }"),
    ("CertificateParams::write_subject_alt_names", "write_oid", "ObjectIdentifier::from_slice(elem(self.subject_alt_names)#OtherName.0.0)"): ("raw", "san_othername_oid", "SanType::OtherName((vec![1], ..))"),
    ("write_distinguished_name", "write_oid", "elem(dn).0.to_oid()"): ("raw", "custom_dn_oid", "DnType::CustomDnType(vec![1])"),
    ("write_distribution_point_name_uris", "write_ia5_string", "elem(uris)"): ("raw", "crl_dp_uri", "CrlDistributionPoint { uris: vec![\"http://\\u{e9}\"] }"),
    ("write_general_subtrees", "write_ia5_string", "alt(elem(general_subtrees)#Rfc822Name.0|elem(general_subtrees)#DnsName.0)"): ("raw", "nc_dns", "GeneralSubtree::DnsName(\"\\u{e9}\")"),
    ("write_x509_extension", "write_oid", "ObjectIdentifier::from_slice(extension_oid)"): ("raw", "custom_ext_oid", "CustomExtension::from_oid_content(&[1], ..)"),
}


def s_callsites(prop):
    import engine_s
    t0 = time.time()
    obs = []
    try:
        units, enums = engine_s.skeleton()
        seen = {}
        for name, u in sorted(units.items()):
            if not u.get("writer"):
                continue
            nf, at, _ = engine_s.normal_form(name, options=("self.name_constraints", "self.serial_number", "self.reason_code", "self.invalidity_date", "self.scope", "self.issuing_distribution_point"))
            lets = {}

            def walk(ns):
                for n in ns:
                    if n["kind"] == "let":
                        lets[n["attrs"][0]] = n["attrs"][1]
                    if n["kind"] == "prim" and n["attrs"][0] in ASSERTING:
                        args = [re.sub(r'\$L\d+', lambda m: lets.get(m.group(0), m.group(0)), x) for x in n["attrs"][1:]]
                        seen[(name, n["attrs"][0], args[0] if args else "")] = n.get("line")
                    walk(n["children"])
            walk(nf)
    except engine_s.Undecided as e:
        return [Ob(prop + ".S.callsites", "S", "structural", "vx skel", UNDECIDED, time.time() - t0, str(e))]
    unknown, raw = [], {}
    for (unit, prim, arg), line in seen.items():
        cls = CALLSITES.get((unit, prim, arg)) or CALLSITES.get((unit, prim, "*"))
        if cls is None:
            unknown.append("%s: %s(%s) at line %s" % (unit, prim, arg[:80], line))
        elif cls[0] == "raw":
            raw.setdefault(cls[1], []).append((unit, prim, arg, line, cls[2]))
    obs.append(Ob(prop + ".S.callsites.classified", "S", "structural", "vx skel + table", DISCHARGED if not unknown else FAILED, time.time() - t0,
                  "%d call sites of asserting DER writers (IA5 / printable / OID / time / bit string); every one is classified as fed by a validated type, a constant, a K-proved precondition, or a raw public field" % len(seen)
                  if not unknown else "unclassified call site(s) of an asserting DER writer (a new way to hand unvalidated data to a panicking writer): " + "; ".join(unknown),
                  signature=None if not unknown else "unclassified call site", functions=sorted(set(k[0] for k in seen))))
    # each raw site: a finding obligation witnessed natively
    ok, err = rebuild_replay()
    for site, lst in sorted(raw.items()):
        oid = "%s.callsite.%s" % (prop, site)
        inp = {"site": site}
        if site.startswith("time_year"):
            inp = {"site": "time_year", "dt": {"year": -5, "ordinal": 10}}
        if site in ("crl_dp_uri", "nc_dns", "nc_rfc822", "crl_idp_uri"):
            inp["text"] = "http://\u00e9"
        p = os.path.join(CACHE, "site-%s-%d.json" % (site, os.getpid()))
        json.dump({"obligation": oid, "kind": "panic_site", "input": inp}, open(p, "w"))
        rep, out = run_replay(p) if ok else (None, {"error": err})
        os.remove(p)
        where = "; ".join("%s line %s" % (u, l) for u, _, _, l, _ in lst)
        if rep is True:
            obs.append(Ob(oid, "S", "bounded", "native replay (witness input)", FAILED, 0, "raw public field reaches an asserting DER writer (%s); witness %s panics" % (where, lst[0][4]),
                          signature="panic", finding=True, replay={"kind": "panic_site", "input": inp}, bound="one witness input"))
        elif rep is False:
            obs.append(Ob(oid, "S", "bounded", "native replay (witness input)", DISCHARGED, 0, "witness %s no longer panics (%s)" % (lst[0][4], where), finding=True, bound="one witness input"))
        else:
            obs.append(Ob(oid, "S", "bounded", "native replay (witness input)", UNDECIDED, 0, "witness could not be run: %s" % json.dumps(out)[:200], finding=True))
    return obs


def s_const(name, file, expected, oname):
    def f(prop):
        import engine_s, verus_unit as vu
        t0 = time.time()
        try:
            it, src = vu.find_item(REPO, file, "const " + name)
            got = engine_s.canon(src[it["start"]:it["end"]].decode())
            ok = got == expected
            return [Ob("%s.S.const.%s" % (prop, oname), "S", "structural", "vx index", DISCHARGED if ok else FAILED, time.time() - t0,
                       "const %s = %s" % (name, got) if ok else "const %s differs: `%s`, required `%s`" % (name, got, expected), signature=None if ok else oname)]
        except vu.LostAnchor as e:
            return [Ob("%s.S.const.%s" % (prop, oname), "S", "structural", "vx index", UNDECIDED, time.time() - t0, str(e))]
    return f


ENCODE_CONFIG_TEXT = 'constENCODE_CONFIG:pem::EncodeConfig={letline_ending=matchcfg!(target_family="windows"){true=>pem::LineEnding::CRLF,false=>pem::LineEnding::LF,};pem::EncodeConfig::new().set_line_ending(line_ending)};'

prop("C06", level="other", v_dn=["dn.push", "dn.iter", "dn.next"],
     s_extra=[s_order("CertificateSigningRequestParams::from_der", r'verify_signature\(\)', r'certification_request_info|signature_algorithm|requested_extensions', "verify_before_use",
                      "the signature check (propagated with ?) precedes every use of the parsed request")],
     explanation="Structural contract of the CSR parser (S): the signature check is the first use of the parsed request and its error is propagated with `?` before `info`, the algorithm or the requested extensions are read; every extension outside KeyUsage / SubjectAlternativeName / ExtendedKeyUsage and every non-standard EKU returns Err(UnsupportedExtension) (the normal form of from_der is pinned by its summary contract); from_pem delegates to from_der; issuance writes the SPKI from the request's own key object (S: signed_by passes self.public_key to the serializer and to the stored SPKI) through serialize_public_key_der (S + K bytes). Soundness of x509-parser's verify_signature and everything about arbitrary byte strings are NOT decided.",
     assume=["x509", "crypto", "s_abs", "kcfg"])

prop("C10", level="other", s_extra=[s_callsites],
     explanation="Generation side only. Exact panic preconditions of the asserting DER writers rcgen calls are established by K (IA5: ASCII; time: UTC year 0..=9999; bit string: length consistency; OID arcs) and every call site of such a writer is classified (S) as fed by a validated type / constant / K-proved precondition, or by a raw public field — the latter are the recorded findings, each witnessed natively. Every K harness runs with Kani's panic / overflow / bounds checks on, so each completed harness is also a panic-freedom result for its shape (string constructors for all characters, time writer, leaf functions). Parsing entry points (x509-parser, ring, pem) are NOT decided.",
     assume=["x509", "crypto", "pem", "yasna", "s_abs", "kcfg"])

prop("C14", level="other", k=False,
     s_extra=[s_const("ENCODE_CONFIG", "rcgen/src/lib.rs", ENCODE_CONFIG_TEXT, "encode_config")],
     explanation="S only: each of the five PEM accessors is `pem::encode_config(&Pem::new(<RFC 7468 label>, <the DER accessor of the same object>), ENCODE_CONFIG)` with labels CERTIFICATE / CERTIFICATE REQUEST / X509 CRL / PRIVATE KEY / PUBLIC KEY; ENCODE_CONFIG selects LF unless target_family = windows; each loader is pem::parse followed by the DER entry point on the decoded contents. The behaviour of the pem / base64 crates (64-column lines, padding, strict decoding) is an ASSUMED contract.",
     assume=["pem", "s_abs"])

prop("C17", level="other", v_dn=["dn.push", "dn.iter", "dn.next"],
     explanation="Inverse pairs the importer relies on (K, x509-parser build): from_u16(fold(to_u16)) = identity on all 512 key-usage sets in RFC order; IP octet lengths 4 / 16 accepted, everything else rejected; subnet bytes = address || mask (to_bytes); attribute OID table round trip. The field-by-field converters over x509-parser's parsed certificate are pinned structurally by their summary contracts (S) but their semantics over arbitrary certificates is NOT decided.",
     assume=["x509", "s_abs", "kcfg"])

prop("C18", level="other",
     s_extra=[s_order("main", r'\.build\(', r'\.write\(', "build_before_write", "both certificates are built (and both build errors propagated) before the first file is written")],
     explanation="S: in main both build() calls precede the first write(); builder postconditions as pinned normal forms (CA: Ca(Unconstrained) + digitalSignature, keyCertSign, cRLSign; end entity: NoCa, AKI on, digitalSignature; client_auth / server_auth insert once; key and certificate of a pair come from the same key object; file names {name}.key.pem / {name}.pem; IP literals become IP SANs, everything else DNS names). K: EKU insertion idempotent. Process exit status, argument parsing and files on disk are NOT decided.",
     assume=["crypto", "s_abs", "kcfg"])


def main(argv):
    if not argv:
        print("usage: ./check <Cxx> [--tier quick|thorough] | --replay FILE | --clean")
        return 2
    if argv[0] == "--clean":
        shutil.rmtree(os.path.join(CACHE, "verus"), ignore_errors=True)
        shutil.rmtree(SCRATCH_ROOT, ignore_errors=True)
        for d in os.listdir(CACHE) if os.path.isdir(CACHE) else []:
            if d.startswith("kani-target"):
                shutil.rmtree(os.path.join(CACHE, d), ignore_errors=True)
        return 0
    if argv[0] == "--replay":
        ensure_tools()
        body = json.load(open(argv[1]))
        if body.get("kind") in (None, "none") or body.get("input") is None:
            print(json.dumps({"obligation": body.get("obligation"), "note": "the verifier gave no concrete input for this obligation (no-failing-input-found); the verifier output is kept in the file", "verifier_output": (body.get("verifier_output") or "")[:2000]}, indent=1))
            return 2
        rep, out = run_replay(argv[1])
        print(json.dumps(out, indent=1))
        return 1 if rep is True else (0 if rep is False else 2)
    pid = argv[0]
    tier = os.environ.get("VERIF_TIER", "quick")
    if "--tier" in argv:
        tier = argv[argv.index("--tier") + 1]
    if pid not in SPECS:
        print("no check for %s" % pid)
        return 2
    ensure_tools()
    t0 = time.time()
    return run(pid, tier, t0, SPECS[pid])
