#!/usr/bin/env python3-vt
"""prints, per property, the obligations registered (for DESIGN.md section 4): K harnesses by tier, S units, VC groups, V obligations"""
import os, re, sys
sys.path.insert(0, os.path.dirname(os.path.abspath(__file__)))
import props, engine_k
hs = engine_k.load_harnesses()
sdir = os.path.join(props.VERIF, "contracts", "summary")
units = {}
for f in sorted(os.listdir(sdir)):
    if f.endswith(".sum"):
        for m in re.finditer(r'^@unit (\S+) \S+((?: \S+=\S+)*)$', open(os.path.join(sdir, f)).read(), re.M):
            kv = dict(x.split("=", 1) for x in m.group(2).split())
            for p in kv.get("props", "").split(","):
                units.setdefault(p, []).append(m.group(1))
for pid in sorted(props.SPECS):
    sp = props.SPECS[pid]
    k_q = [h.ob for h in hs if pid in h.props and h.tier == "quick" and h.kind != "finding"]
    k_t = [h.ob for h in hs if pid in h.props and h.tier == "thorough"]
    k_f = [h.ob for h in hs if pid in h.props and h.kind == "finding"]
    v = sp.get("v_dn")
    vtxt = "all 15 `dn.*` + canary" if v is True else (", ".join("`%s`" % x for x in v) if v else "")
    print("* **%s**" % pid)
    if vtxt:
        print("  V: %s." % vtxt)
    if k_q:
        print("  K (quick): %s." % ", ".join("`%s`" % x for x in k_q))
    if k_t:
        print("  K (thorough only, bounded): %s." % ", ".join("`%s`" % x for x in k_t))
    if k_f:
        print("  K finding obligations: %s." % ", ".join("`%s`" % x for x in k_f))
    if units.get(pid):
        print("  S units (%d): %s." % (len(units[pid]), ", ".join("`%s`" % x for x in units[pid])))
    if sp.get("vc"):
        print("  S generated VCs: %s." % ", ".join("`vc.%s.*`" % g for g in sp["vc"]))
    if sp.get("s_extra"):
        print("  S extra: %d further structural obligation group(s) (statement order / constant / call-site classification)." % len(sp["s_extra"]))
    if sp.get("scans"):
        print("  scan: `scan.no_shared_mutable_state` (assumption check).")
