#!/usr/bin/env python3-vt
"""Re-emit every summary contract from the CURRENT normal form of the code (only to be used on the unchanged tree, after
a change of the evaluator's normal form; the diff of contracts/summary must then be reviewed)."""
import os, re, sys
sys.path.insert(0, os.path.dirname(os.path.abspath(__file__)))
import engine_s as es
sdir = os.path.join(es.VERIF, "contracts", "summary")
for f in sorted(os.listdir(sdir)):
    if not f.endswith(".sum"):
        continue
    text = open(os.path.join(sdir, f)).read()
    hdr = "\n".join(l for l in text.split("\n") if l.startswith("#"))
    out = [hdr, ""]
    for m in re.finditer(r'^@unit (\S+) (\S+)((?: \S+=\S+)*)$', text, re.M):
        name = m.group(1)
        kv = dict(x.split("=", 1) for x in m.group(3).split())
        props = kv.get("props", "").split(",")
        opts = tuple(x for x in kv.get("options", "").split(",") if x)
        try:
            out.append(es.emit_unit(name, props, opts))
        except es.Undecided as e:
            print("UNDECIDED", name, e)
    open(os.path.join(sdir, f), "w").write("\n".join(out))
