"""Shared driver library: obligations, known findings, replay files, evidence, exit codes."""
import json, os, sys, time, hashlib, subprocess, shutil

VERIF = os.path.dirname(os.path.dirname(os.path.abspath(__file__)))
REPO = os.environ.get("VERIF_REPO", "/repo")
CACHE = os.path.join(VERIF, ".cache")
SCRATCH_ROOT = os.environ.get("VERIF_SCRATCH", "/var/tmp/verif-scratch")
REPLAY_BIN = os.path.join(CACHE, "replay-target", "debug", "verif-replay")
VX_BIN = os.path.join(CACHE, "vx-target", "release", "vx")

DISCHARGED, FAILED, UNDECIDED, SKIPPED = "discharged", "failed", "undecided", "skipped"


class Ob:
    """One proof obligation (or bounded / structural check) and its outcome."""

    def __init__(self, oid, engine, kind, backend, status, seconds=0.0, detail="", bound=None,
                 functions=None, replay=None, signature=None, finding=False):
        self.id = oid              # e.g. C20.dn.push
        self.engine = engine       # V | K | S | scan
        self.kind = kind           # proof | bounded | structural | scan
        self.backend = backend     # "verus/z3", "kani/cbmc", "z3"
        self.status = status
        self.seconds = seconds
        self.detail = detail
        self.bound = bound
        self.functions = functions or []   # functions of /repo under contract in this obligation
        self.replay = replay       # dict {kind, input} for the native replay driver, or None
        self.signature = signature  # short stable description of *what* failed (matched against known findings)
        self.finding = finding     # True: a finding obligation (expected to fail with a recorded signature)

    def to_json(self):
        d = {"id": self.id, "engine": self.engine, "kind": self.kind, "backend": self.backend,
             "result": self.status, "solver_s": round(self.seconds, 3)}
        if self.bound:
            d["bound"] = self.bound
        if self.functions:
            d["functions"] = self.functions
        if self.detail:
            d["detail"] = self.detail[:600]
        if self.signature:
            d["signature"] = self.signature
        if self.finding:
            d["finding_obligation"] = True
        return d


def load_known():
    p = os.path.join(VERIF, "known_findings.json")
    if not os.path.exists(p):
        return {"findings": [], "fixed": []}
    return json.load(open(p))


def ensure_tools():
    missing = [p for p in (VX_BIN, REPLAY_BIN) if not os.path.exists(p)]
    if missing:
        subprocess.run([os.path.join(VERIF, "setup.sh")], check=False, stdout=subprocess.DEVNULL, stderr=subprocess.DEVNULL)


def rebuild_replay():
    """The replay crate depends on /repo/rcgen by path: rebuild so that replays run the current tree."""
    env = dict(os.environ, CARGO_TARGET_DIR=os.path.join(CACHE, "replay-target"), CARGO_NET_OFFLINE="true")
    r = subprocess.run(["cargo", "build", "--offline", "--quiet"], cwd=os.path.join(VERIF, "replay"), env=env,
                       capture_output=True, text=True)
    return r.returncode == 0, r.stderr[-2000:]


def run_replay(replay_path, timeout=120):
    """Returns (reproduced: True/False/None, json output)."""
    ok, err = rebuild_replay()
    if not ok:
        return None, {"error": "replay crate does not build against the current tree", "stderr": err}
    try:
        r = subprocess.run([REPLAY_BIN, replay_path], capture_output=True, text=True, timeout=timeout)
    except subprocess.TimeoutExpired:
        return None, {"error": "replay timed out"}
    try:
        out = json.loads(r.stdout.strip().splitlines()[-1])
    except Exception:
        out = {"error": "no output", "stdout": r.stdout[-500:], "stderr": r.stderr[-500:]}
    if r.returncode == 1:
        return True, out
    if r.returncode == 0:
        return False, out
    return None, out


def write_replay_file(prop, ob, verifier_output):
    d = os.path.join(VERIF, "replays", prop)
    os.makedirs(d, exist_ok=True)
    path = os.path.join(d, ob.id.replace("/", "_") + ".json")
    body = {"property": prop, "obligation": ob.id, "engine": ob.engine, "backend": ob.backend,
            "signature": ob.signature, "kind": (ob.replay or {}).get("kind", "none"),
            "input": (ob.replay or {}).get("input"),
            "verifier_output": verifier_output[-8000:] if verifier_output else ob.detail}
    json.dump(body, open(path, "w"), indent=1)
    return path


def finish(prop, tier, obs, t0, level, functions, assumptions, trusted_base, checker_cmd, explanation,
           extra=None, verifier_outputs=None):
    """Classify, print VIOLATION / KNOWN-FINDING / UNDECIDED lines, write evidence, return exit code."""
    known = load_known()
    verifier_outputs = verifier_outputs or {}
    violations, undecided, known_hits = [], [], []
    for ob in obs:
        if ob.status == FAILED:
            hit = None
            for k in known.get("findings", []):
                if k["property"] == prop and k["obligation"] == ob.id and (k.get("signature") is None or (ob.signature or "").find(k["signature"]) >= 0):
                    hit = k
            if hit is not None and ob.finding:
                known_hits.append((ob, hit))
            else:
                violations.append(ob)
        elif ob.status == UNDECIDED:
            undecided.append(ob)
    replay_notes = []
    for ob, hit in known_hits:
        print("KNOWN-FINDING: property=%s %s [%s]" % (prop, hit["what"], ob.id))
    for ob in obs:
        if ob.finding and ob.status == DISCHARGED:
            print("NOTE: finding obligation %s no longer fails (the recorded finding seems repaired)" % ob.id)
    for ob in violations:
        path = write_replay_file(prop, ob, verifier_outputs.get(ob.id, ob.detail))
        suffix = ""
        if ob.replay:
            rep, out = run_replay(path)
            body = json.load(open(path))
            body["replay_result"] = out
            body["reproduced_on_real_code"] = rep
            json.dump(body, open(path, "w"), indent=1)
            if rep is not True:
                suffix = " no-failing-input-found"
            replay_notes.append({"obligation": ob.id, "reproduced": rep})
        else:
            suffix = " no-failing-input-found"
        print("VIOLATION property=%s replay=%s obligation=%s%s" % (prop, path, ob.id, suffix))
    for ob in undecided:
        print("UNDECIDED property=%s obligation=%s reason=%s" % (prop, ob.id, (ob.detail or "").replace("\n", " ")[:200]))

    proofish = [o for o in obs if o.kind in ("proof", "structural") and not o.finding and o.status != SKIPPED]
    bounded = [o for o in obs if o.kind == "bounded" and not o.finding and o.status != SKIPPED]
    scans = [o for o in obs if o.kind == "scan"]
    skipped = [o for o in obs if o.status == SKIPPED]
    n_ob = len(proofish)
    n_dis = len([o for o in proofish if o.status == DISCHARGED])
    backends = sorted(set(o.backend for o in obs))
    solver_s = round(sum(o.seconds for o in obs), 2)
    fns = sorted(set(functions) | set(f for o in obs for f in o.functions))
    by_engine = {}
    for o in obs:
        if o.status == SKIPPED:
            continue
        key = "%s/%s" % (o.engine, o.kind)
        d = by_engine.setdefault(key, {"total": 0, "discharged": 0})
        d["total"] += 1
        d["discharged"] += 1 if o.status == DISCHARGED else 0
    cov = {
        "obligations": n_ob,
        "obligations_by_engine_and_kind": by_engine,
        "discharged": n_dis,
        "checker_cmd": checker_cmd,
        "trusted_base": trusted_base,
        "explanation": explanation,
        "functions_under_contract": fns,
        "back_ends": backends,
        "solver_seconds": solver_s,
        "proof_obligations": [o.to_json() for o in proofish],
        "bounded_checks": [o.to_json() for o in bounded],
        "bounded_discharged": len([o for o in bounded if o.status == DISCHARGED]),
        "assumption_scans": [o.to_json() for o in scans],
        "finding_obligations": [o.to_json() for o in obs if o.finding],
        "skipped": [o.to_json() for o in skipped],
        "samples": [o.to_json() for o in (proofish + bounded)[:6]],
        "evaluations": len(obs),
        "distinct_nontrivial": len(set(o.id for o in obs if o.status in (DISCHARGED, FAILED))),
        "rule": "one evaluation per obligation generated from /repo's current source; distinct = distinct obligation ids that a back end decided (discharged or failed); skipped/undecided are not counted",
        "known_findings_reported": [h["what"] for _, h in known_hits],
        "replays": replay_notes,
    }
    if extra:
        cov.update(extra)
    ev = {"property_id": prop, "tier": tier, "seed": int(os.environ.get("VERIF_SEED", "0") or 0), "level": level,
          "coverage": cov, "assumptions": assumptions, "wall_s": round(time.time() - t0, 2),
          "violations": len(violations)}
    os.makedirs(os.path.join(VERIF, "evidence"), exist_ok=True)
    json.dump(ev, open(os.path.join(VERIF, "evidence", prop + ".json"), "w"), indent=1)
    print("%s tier=%s: %d/%d proof-grade obligations discharged, %d/%d bounded, %d skipped, %d undecided, %d violation(s), %d known finding(s); %.1fs" % (
        prop, tier, n_dis, n_ob, cov["bounded_discharged"], len(bounded), len(skipped), len(undecided), len(violations), len(known_hits), time.time() - t0))
    if violations:
        return 1
    if undecided or n_ob == 0 and not bounded:
        return 2
    return 0
