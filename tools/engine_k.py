"""Engine K: Kani/CBMC on a scratch copy of the real crate with contracts and harnesses injected.

contracts/kani/<module>.rs   body of `#[cfg(kani)] mod verif_<module> { use super::*; … }`, appended to the
                             module's source file in the scratch copy (a child module sees private items).
contracts/kani/inplace.json  function contracts (#[cfg_attr(kani, kani::requires/ensures(..))]) inserted above
                             the named functions of the scratch copy.
Harness header (one comment line directly above the attributes of each harness):
  /// @ob <suffix> @props C02,C04 @kind forall|bounded|finding @tier quick|thorough [@bound "<text>"]
  ///     [@features "pem,x509-parser"] [@replay <decoder>] [@fns a,b] [@timeout 600] [@mem 8] [@expect <signature>]
"""
import concurrent.futures, glob, json, os, re, resource, shlex, shutil, subprocess, time
from vlib import *

MODULE_FILES = {
    "lib": "rcgen/src/lib.rs",
    "certificate": "rcgen/src/certificate.rs",
    "crl": "rcgen/src/crl.rs",
    "csr": "rcgen/src/csr.rs",
    "key_pair": "rcgen/src/key_pair.rs",
    "sign_algo": "rcgen/src/sign_algo.rs",
    "string": "rcgen/src/string.rs",
    "cli_cert": "rustls-cert-gen/src/cert.rs",
    "cli_main": "rustls-cert-gen/src/main.rs",
}
KANI_FLAGS = ["-Z", "function-contracts", "-Z", "stubbing"]


class Harness:
    def __init__(self, module, name, hdr):
        self.module, self.name, self.hdr = module, name, hdr
        stem = os.path.basename(MODULE_FILES[module])[:-3]
        prefix = "" if stem in ("lib", "main") else stem + "::"
        self.full = "%sverif_%s::%s" % (prefix, module, name)
        self.ob = hdr.get("ob", name)
        self.props = hdr.get("props", "").split(",")
        self.kind = hdr.get("kind", "bounded")
        self.tier = hdr.get("tier", "quick")
        self.bound = hdr.get("bound")
        self.features = hdr.get("features", "")
        self.replay = hdr.get("replay")
        self.fns = [x for x in hdr.get("fns", "").split(",") if x]
        self.timeout = int(hdr.get("timeout", "600"))
        self.mem_gb = int(hdr.get("mem", "8"))
        self.expect = hdr.get("expect")
        self.crate = "rustls-cert-gen" if module.startswith("cli_") else "rcgen"


def parse_header(text):
    d = {}
    for m in re.finditer(r'@(\w+)\s+("([^"]*)"|\S+)', text):
        d[m.group(1)] = m.group(3) if m.group(3) is not None else m.group(2)
    return d


def load_harnesses():
    hs = []
    for path in sorted(glob.glob(os.path.join(VERIF, "contracts", "kani", "*.rs"))):
        module = os.path.basename(path)[:-3]
        lines = open(path).read().splitlines()
        i = 0
        while i < len(lines):
            if lines[i].lstrip().startswith("/// @ob"):
                hdr_text = lines[i]
                j = i + 1
                while j < len(lines) and lines[j].lstrip().startswith("///"):
                    hdr_text += " " + lines[j]
                    j += 1
                k = j
                while k < len(lines) and not re.match(r'\s*(pub\s+)?fn\s+(\w+)', lines[k]):
                    k += 1
                if k < len(lines):
                    name = re.match(r'\s*(pub\s+)?fn\s+(\w+)', lines[k]).group(2)
                    hs.append(Harness(module, name, parse_header(hdr_text)))
                i = k
            i += 1
    return hs


def select(prop, tier):
    out = []
    for h in load_harnesses():
        if prop in h.props and (tier == "thorough" or h.tier == "quick"):
            out.append(h)
    return out


class Scratch:
    """A scratch copy of /repo's working tree with the verification modules injected.
    The path is stable (cargo fingerprints stay valid, so an unchanged tree is not recompiled) and guarded by
    an exclusive lock, because the Kani target directory is shared: concurrent checks serialise here."""

    def __init__(self, tag):
        self.root = os.path.join(SCRATCH_ROOT, "kani")
        self.repo = os.path.join(self.root, "repo")
        self.injected = []
        self.lock = None

    def __enter__(self):
        import fcntl
        os.makedirs(self.root, exist_ok=True)
        self.lock = open(os.path.join(self.root, ".lock"), "w")
        fcntl.flock(self.lock, fcntl.LOCK_EX)
        subprocess.run(["rsync", "-a", "--delete", "--exclude", "target", "--exclude", ".git", REPO + "/", self.repo + "/"], check=True)
        return self

    def __exit__(self, *a):
        import fcntl
        shutil.rmtree(self.repo, ignore_errors=True)
        fcntl.flock(self.lock, fcntl.LOCK_UN)
        self.lock.close()

    def inject(self, modules):
        import verus_unit as vu
        # in-place contracts first (offsets refer to the unmodified text)
        inplace_path = os.path.join(VERIF, "contracts", "kani", "inplace.json")
        inplace = json.load(open(inplace_path)) if os.path.exists(inplace_path) else []
        by_file = {}
        for c in inplace:
            by_file.setdefault(c["file"], []).append(c)
        lost = []
        for file, cs in by_file.items():
            p = os.path.join(self.repo, file)
            idx, src = vu.index(p)
            splices = []
            for c in cs:
                it = None
                for top in idx["items"]:
                    if top["path"] == c["item"]:
                        it = top
                    for sub in top.get("items", []):
                        if sub.get("path") == c["item"]:
                            it = sub
                if it is None:
                    lost.append("%s :: %s" % (file, c["item"]))
                    continue
                splices.append((it["start"], 0, "".join(a + "\n" for a in c["attrs"])))
            text = vu.apply_splices(src, 0, len(src), splices)
            open(p, "wb").write(text)
            vu._index_cache.pop(p, None)
        for m in modules:
            src_path = os.path.join(VERIF, "contracts", "kani", m + ".rs")
            if not os.path.exists(src_path):
                continue
            target = os.path.join(self.repo, MODULE_FILES[m])
            body = open(src_path).read()
            with open(target, "a") as f:
                f.write("\n#[cfg(kani)]\n#[allow(unused, dead_code, unused_imports, unreachable_pub, missing_docs)]\nmod verif_%s {\n\tuse super::*;\n%s\n}\n" % (m, body))
            self.injected.append(m)
        # lint relaxations needed by the stubs (transmute for the fixed hasher state, static mut ghost state)
        for f in ("rcgen/src/lib.rs",):
            p = os.path.join(self.repo, f)
            t = open(p).read()
            t = t.replace("#![forbid(unsafe_code)]", "#![cfg_attr(not(kani), forbid(unsafe_code))]")
            t = t.replace("#![deny(missing_docs)]", "#![cfg_attr(not(kani), deny(missing_docs))]")
            open(p, "w").write(t)
        # deterministic mtimes: a file touched by the injection gets max(mtime in /repo, mtime of the contracts),
        # so cargo recompiles exactly when /repo's source or a contract file changed
        cdir = os.path.join(VERIF, "contracts", "kani")
        cm = max(os.path.getmtime(os.path.join(cdir, f)) for f in os.listdir(cdir))
        for rel in set(list(by_file.keys()) + [MODULE_FILES[m] for m in self.injected] + ["rcgen/src/lib.rs"]):
            src = os.path.join(REPO, rel)
            if os.path.exists(src):
                mt = max(os.path.getmtime(src), cm)
                os.utime(os.path.join(self.repo, rel), (mt, mt))
        return lost


def target_dir(features, crate):
    tag = re.sub(r'[^a-z0-9]+', '_', (crate + "_" + features).lower()).strip("_") or "none"
    return os.path.join(CACHE, "kani-target-" + tag)


def cargo_kani_cmd(h, extra=()):
    cmd = ["cargo", "kani"]
    if h.crate == "rcgen":
        cmd += ["--no-default-features"]
        if h.features:
            cmd += ["--features", h.features]
    cmd += KANI_FLAGS + list(extra)
    return cmd


def codegen(scratch, features, crate):
    env = dict(os.environ, CARGO_TARGET_DIR=target_dir(features, crate), CARGO_NET_OFFLINE="true")
    cmd = ["cargo", "kani"]
    if crate == "rcgen":
        cmd += ["--no-default-features"]
        if features:
            cmd += ["--features", features]
    cmd += KANI_FLAGS + ["--only-codegen"]
    t0 = time.time()
    r = subprocess.run(cmd, cwd=os.path.join(scratch.repo, crate), env=env, capture_output=True, text=True)
    return r.returncode == 0, (r.stdout + r.stderr)[-6000:], time.time() - t0


def _limit(mem_gb):
    def f():
        resource.setrlimit(resource.RLIMIT_AS, (mem_gb << 30, mem_gb << 30))
    return f


FAILED_CHECK = re.compile(r'Failed Checks: (.*)')


def run_one(scratch, h, extra=(), timeout=None):
    env = dict(os.environ, CARGO_TARGET_DIR=target_dir(h.features, h.crate), CARGO_NET_OFFLINE="true")
    cmd = cargo_kani_cmd(h, list(extra) + ["--harness", h.full, "--exact"])
    t0 = time.time()
    import signal
    proc = subprocess.Popen(cmd, cwd=os.path.join(scratch.repo, h.crate), env=env, stdout=subprocess.PIPE, stderr=subprocess.STDOUT, text=True,
                            preexec_fn=_limit(h.mem_gb + 4), start_new_session=True)
    try:
        out, _ = proc.communicate(timeout=timeout or h.timeout)
        rc = proc.returncode
    except subprocess.TimeoutExpired:
        # kill the whole process group: cargo-kani, kani-driver and cbmc
        try:
            os.killpg(proc.pid, signal.SIGKILL)
        except ProcessLookupError:
            pass
        try:
            out, _ = proc.communicate(timeout=20)
        except Exception:
            out = ""
        out = (out or "") + "\nTIMEOUT"
        rc = -9
    wall = time.time() - t0
    try:
        os.makedirs(os.path.join(CACHE, "kani-logs"), exist_ok=True)
        open(os.path.join(CACHE, "kani-logs", h.full.replace("::", ".") + ".log"), "w").write(out)
    except Exception:
        pass
    res = {"harness": h.full, "wall_s": wall, "rc": rc, "status": "undecided", "failed_checks": [], "covers": None, "out": out[-12000:], "out_full": out, "detail": ""}
    m = re.search(r'Verification Time: ([0-9.]+)s', out)
    res["solver_s"] = float(m.group(1)) if m else wall
    stubs = re.findall(r'- Stub: (.*)', out)
    res["stubs"] = stubs
    if rc == -9:
        res["detail"] = "timeout after %ds" % (timeout or h.timeout)
        return res
    if "VERIFICATION:- SUCCESSFUL" in out:
        cov = re.search(r'\*\* (\d+) of (\d+) cover properties satisfied', out)
        res["covers"] = (int(cov.group(1)), int(cov.group(2))) if cov else None
        if cov and int(cov.group(1)) < int(cov.group(2)):
            res["status"] = "undecided"
            res["detail"] = "vacuous: %s of %s cover properties satisfied" % (cov.group(1), cov.group(2))
        elif not cov:
            res["status"] = "undecided"
            res["detail"] = "no cover property in harness (vacuity guard missing)"
        else:
            res["status"] = "discharged"
    elif "VERIFICATION:- FAILED" in out:
        fc = [x.strip() for x in FAILED_CHECK.findall(out)]
        res["failed_checks"] = fc
        locs = re.findall(r'Failed Checks: .*\n\s*File: "([^"]+)", line (\d+), in (\S+)', out)
        res["failed_locs"] = ["%s:%s in %s" % (os.path.basename(a), b, c) for a, b, c in locs]
        # Kani reports constructs it cannot model as failed checks with these phrases (never a property violation)
        tool = ("unwinding assertion", "is not currently supported by kani", "kani does not support", "unsupported construct", "not yet supported")
        real = [c for c in fc if not any(t in c.lower() for t in tool)]
        if "CBMC failed" in out or "out of memory" in out.lower() or "std::bad_alloc" in out:
            res["detail"] = "CBMC resource failure"
        elif not fc:
            res["detail"] = "FAILED without a failed check (tool error)"
        elif not real:
            res["detail"] = "only unwinding / unsupported-construct checks failed: %s" % "; ".join(fc[:3])
        else:
            res["status"] = "failed"
            res["detail"] = "; ".join(real[:4])
    else:
        tail = out.strip().splitlines()[-8:]
        res["detail"] = "no verdict (compile error, crash or memory cap): " + " | ".join(tail)[-400:]
    return res


def playback_values(out):
    """values of the kani::any() calls (one byte list per primitive, in call order) of the first failed check"""
    vals = []
    # one unit test is printed per failed check AND per satisfied cover: take the first that is not a cover witness
    blocks = out.split("Concrete playback unit test for")[1:]
    pick = None
    for b in blocks:
        if "Check for `cover`" in b:
            continue
        pick = b
        break
    if pick is None and blocks:
        # Kani prints one test per distinct value vector: when the failing trace has the same values as a
        # cover witness only the cover's test is printed. Use it; the native replay decides whether it reproduces.
        pick = blocks[0]
    if pick is None:
        return None
    m = re.search(r'let concrete_vals: Vec<Vec<u8>> = vec!\[(.*?)\];', pick, re.S)
    if not m:
        return None
    for vm in re.finditer(r'vec!\[([0-9,\s]*)\]', m.group(1)):
        vals.append([int(x) for x in vm.group(1).replace("\n", " ").split(",") if x.strip()])
    return vals


def run_property(prop, tier, decoders=None, jobs=None):
    """Build scratch, codegen per feature set, run the property's harnesses in parallel.
    Returns (obs, verifier_outputs, info)."""
    hs = select(prop, tier)
    all_for_prop = [h for h in load_harnesses() if prop in h.props]
    sel = set(h.full for h in hs)
    skipped = [h for h in all_for_prop if h.full not in sel]
    obs, outs = [], {}
    info = {"harnesses": len(hs), "codegen_s": 0.0, "stubs": {}, "lost_contract_anchors": []}
    if not hs:
        return obs, outs, info
    jobs = jobs or int(os.environ.get("VERIF_JOBS", "6"))
    with Scratch("kani-" + prop) as sc:
        mods = sorted(set(h.module for h in load_harnesses()))
        lost = sc.inject(mods)
        info["lost_contract_anchors"] = lost
        sets = sorted(set((h.features, h.crate) for h in hs))
        ok_sets = {}
        for feats, crate in sets:
            ok, log, secs = codegen(sc, feats, crate)
            info["codegen_s"] += secs
            ok_sets[(feats, crate)] = (ok, log)
        results = {}
        with concurrent.futures.ThreadPoolExecutor(max_workers=jobs) as ex:
            futs = {}
            for h in hs:
                ok, log = ok_sets[(h.features, h.crate)]
                if not ok:
                    results[h.full] = {"status": "undecided", "detail": "scratch crate does not compile under kani: " + log[-600:], "solver_s": 0, "out": log, "failed_checks": [], "stubs": []}
                    continue
                # harnesses with a replay decoder print their counterexample (if any) in the same run
                pb = ["-Z", "concrete-playback", "--concrete-playback=print"] if (h.replay and decoders and h.replay in decoders and not getattr(decoders[h.replay], "static", False)) else []
                futs[ex.submit(run_one, sc, h, pb)] = h
            for f in concurrent.futures.as_completed(futs):
                results[futs[f].full] = f.result()
        for h in hs:
            r = results[h.full]
            oid = "%s.%s" % (prop, h.ob)
            kind = "proof" if h.kind in ("forall", "finding") else "bounded"
            sig = None
            status = {"discharged": DISCHARGED, "failed": FAILED, "undecided": UNDECIDED}[r["status"]]
            if status == UNDECIDED and h.kind == "bounded" and ("timeout" in r["detail"] or "resource" in r["detail"] or "memory" in r["detail"]):
                status = SKIPPED  # opportunistic writer-level run (rule K3): a capped-out run is not a result
            if status == FAILED:
                sig = "; ".join(sorted(set(r["failed_checks"])))[:300]
            ob = Ob(oid, "K", kind, "kani 0.68 / cbmc 6.11 (cadical)", status, r.get("solver_s", 0),
                    detail=(r["detail"] or "") + ((" [stubs: %s]" % ", ".join(r["stubs"])) if r.get("stubs") else ""),
                    bound=h.bound, functions=h.fns, signature=sig, finding=(h.kind == "finding"))
            if status == FAILED:
                outs[oid] = r["out"]
                if h.replay and decoders and h.replay in decoders and not ob.finding:
                    vals = playback_values(r["out_full"])
                    if vals is None and getattr(decoders[h.replay], "static", False):
                        vals = []
                    if vals is not None:
                        try:
                            ob.replay = decoders[h.replay](vals)
                        except Exception as e:
                            ob.detail += " (counterexample decoding failed: %s)" % e
                        outs[oid] += "\n--- concrete playback values: %s" % json.dumps(vals)
            if r.get("stubs"):
                info["stubs"][h.full] = r["stubs"]
            obs.append(ob)
        for h in skipped:
            obs.append(Ob("%s.%s" % (prop, h.ob), "K", "proof" if h.kind == "forall" else "bounded", "kani", SKIPPED, 0,
                          "thorough tier only", bound=h.bound, functions=h.fns, finding=(h.kind == "finding")))
    return obs, outs, info


if __name__ == "__main__":
    import sys
    prop, tier = sys.argv[1], (sys.argv[2] if len(sys.argv) > 2 else "quick")
    only = sys.argv[3:] 
    if only:
        _sel = select
        def select(p, t, _sel=_sel, only=only):
            return [h for h in _sel(p, t) if any(o in h.name for o in only)]
    t0 = time.time()
    obs, outs, info = run_property(prop, tier)
    for o in obs:
        print("%-45s %-10s %-8s %6.1fs  %s" % (o.id, o.status, o.kind, o.seconds, (o.detail or "")[:150]))
    print(json.dumps(info)[:600], "wall %.1fs" % (time.time() - t0))
    if "-v" in sys.argv or True:
        for k, v in outs.items():
            print("=====", k)
            print(v[-3000:])
