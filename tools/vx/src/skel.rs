//! Emission skeleton of functions that handle a yasna writer (engine S front end).
//!
//! For every fn (free or in an impl) that takes a `DERWriter`/`DERWriterSeq` parameter or passes a
//! closure to a DER constructor, the control skeleton of its writer calls is printed as JSON:
//! cons / tagged / prim / call / if / match / for / let / return / cfg / opaque nodes.  Expressions
//! are given as token-stream text (tokens separated by blanks); nothing is interpreted here.
use crate::Src;
use quote::ToTokens;
use serde_json::{json, Value};
use std::collections::HashSet;
use syn::spanned::Spanned;
use syn::*;

fn txt<T: ToTokens>(t: &T) -> String {
	t.to_token_stream().to_string()
}

fn is_writer_ty(t: &Type) -> bool {
	txt(t).contains("DERWriter")
}

const CONS: [&str; 4] = ["write_sequence", "write_sequence_of", "write_set", "write_set_of"];

struct Cx<'a> {
	writers: HashSet<String>,
	src: &'a Src,
}

fn cfg_of(attrs: &[Attribute]) -> Option<String> {
	for a in attrs {
		if a.path().is_ident("cfg") {
			return Some(txt(&a.meta));
		}
	}
	None
}

fn cond_json(e: &Expr) -> Value {
	match e {
		Expr::Paren(p) => cond_json(&p.expr),
		Expr::Group(g) => cond_json(&g.expr),
		Expr::Unary(u) if matches!(u.op, UnOp::Not(_)) => json!({"not": cond_json(&u.expr)}),
		Expr::Binary(b) if matches!(b.op, BinOp::Or(_)) => {
			json!({"or": [cond_json(&b.left), cond_json(&b.right)]})
		},
		Expr::Binary(b) if matches!(b.op, BinOp::And(_)) => {
			json!({"and": [cond_json(&b.left), cond_json(&b.right)]})
		},
		Expr::Let(l) => json!({"let": {"pat": txt(&l.pat), "expr": txt(&l.expr)}}),
		Expr::Match(m) => {
			let arms: Vec<Value> = m
				.arms
				.iter()
				.map(|a| json!({"pat": txt(&a.pat), "guard": a.guard.as_ref().map(|(_, g)| txt(g)), "cfg": cfg_of(&a.attrs), "value": cond_json(&a.body)}))
				.collect();
			json!({"match": {"on": txt(&m.expr), "arms": arms}, "text": txt(e)})
		},
		Expr::If(i) => {
			let single = |b: &Block| -> Option<Value> {
				if b.stmts.len() == 1 {
					if let Stmt::Expr(x, None) = &b.stmts[0] {
						return Some(cond_json(x));
					}
				}
				None
			};
			let t = single(&i.then_branch);
			let f = match &i.else_branch {
				Some((_, eb)) => match &**eb {
					Expr::Block(b) => single(&b.block),
					other => Some(cond_json(other)),
				},
				None => None,
			};
			match (t, f) {
				(Some(t), Some(f)) => json!({"ite": {"c": cond_json(&i.cond), "t": t, "e": f}, "text": txt(e)}),
				_ => json!({"atom": txt(e)}),
			}
		},
		Expr::Block(b) if b.block.stmts.len() == 1 => match &b.block.stmts[0] {
			Stmt::Expr(x, None) => cond_json(x),
			_ => json!({"atom": txt(e)}),
		},
		_ => json!({"atom": txt(e)}),
	}
}

impl<'a> Cx<'a> {
	fn is_slot(&self, e: &Expr) -> bool {
		match e {
			Expr::Path(p) => p
				.path
				.get_ident()
				.map(|i| self.writers.contains(&i.to_string()))
				.unwrap_or(false),
			Expr::MethodCall(m) if m.method == "next" && m.args.is_empty() => self.is_slot(&m.receiver),
			Expr::Paren(p) => self.is_slot(&p.expr),
			_ => false,
		}
	}
	fn uses_writer(&self, e: &Expr) -> bool {
		let s = format!(" {} ", txt(e));
		self.writers.iter().any(|w| s.contains(&format!(" {} ", w)))
	}
	fn closure(&mut self, c: &ExprClosure, as_writer: bool) -> Value {
		let mut added = vec![];
		let mut params = vec![];
		for p in &c.inputs {
			let name = match p {
				Pat::Ident(i) => i.ident.to_string(),
				Pat::Type(t) => txt(&t.pat),
				other => txt(other),
			};
			params.push(name.clone());
			if as_writer && self.writers.insert(name.clone()) {
				added.push(name);
			}
		}
		let body = self.expr(&c.body);
		for a in added {
			self.writers.remove(&a);
		}
		json!({"c": body, "params": params})
	}
	fn block(&mut self, b: &Block) -> Vec<Value> {
		let mut out = vec![];
		for s in &b.stmts {
			match s {
				Stmt::Local(l) => {
					let cfg = cfg_of(&l.attrs);
					if let Some(init) = &l.init {
						// `let w = writer.next();` — an alias of a writer slot
						if self.is_slot(&init.expr) {
							if let Pat::Ident(pi) = &l.pat {
								self.writers.insert(pi.ident.to_string());
								continue;
							}
						}
						let sk = self.expr(&init.expr);
						let mut n = json!({"k": "let", "pat": txt(&l.pat), "expr": txt(&init.expr), "cond": cond_json(&init.expr),
							"line": self.src.line_of(l.span())});
						if contains_writer_code(&sk) {
							n["skel"] = Value::Array(sk);
						}
						if let Pat::Ident(pi) = &l.pat {
							if pi.mutability.is_some() {
								n["mutable"] = json!(true);
							}
						}
						if let Some(c) = cfg {
							n["cfg"] = json!(c);
						}
						out.push(n);
					}
				},
				Stmt::Expr(e, _) => {
					let v = self.expr(e);
					if v.is_empty() {
						out.push(json!({"k": "stmt", "text": txt(e), "line": self.src.line_of(e.span())}));
					} else {
						out.extend(v);
					}
				},
				Stmt::Macro(m) => {
					out.push(json!({"k": "macro", "text": txt(&m.mac), "line": self.src.line_of(m.span())}))
				},
				Stmt::Item(_) => {},
			}
		}
		out
	}
	fn wrap_cfg(attrs: &[Attribute], inner: Vec<Value>) -> Vec<Value> {
		match cfg_of(attrs) {
			Some(c) if !inner.is_empty() => vec![json!({"k": "cfg", "pred": c, "body": inner})],
			_ => inner,
		}
	}
	fn args_json(&mut self, args: &syn::punctuated::Punctuated<Expr, Token![,]>, writer_closures: bool) -> Vec<Value> {
		let mut v = vec![];
		for a in args {
			if self.is_slot(a) {
				v.push(json!({"w": true}));
			} else if let Expr::Closure(c) = a {
				v.push(self.closure(c, writer_closures));
			} else {
				v.push(json!({"e": txt(a)}));
			}
		}
		v
	}
	fn expr(&mut self, e: &Expr) -> Vec<Value> {
		let line = self.src.line_of(e.span());
		match e {
			Expr::Block(b) => Self::wrap_cfg(&b.attrs, self.block(&b.block)),
			Expr::Paren(p) => self.expr(&p.expr),
			Expr::Group(g) => self.expr(&g.expr),
			Expr::Reference(r) => self.expr(&r.expr),
			Expr::Try(t) => {
				let mut v = self.expr(&t.expr);
				if let Some(last) = v.last_mut() {
					if last["k"] == "call" || last["k"] == "cons" {
						last["try"] = json!(true);
					}
				}
				v
			},
			Expr::If(i) => {
				let t = self.block(&i.then_branch);
				let f = match &i.else_branch {
					Some((_, e)) => self.expr(e),
					None => vec![],
				};
				Self::wrap_cfg(
					&i.attrs,
					vec![json!({"k": "if", "cond": cond_json(&i.cond), "cond_text": txt(&i.cond), "then": t, "else": f, "line": line})],
				)
			},
			Expr::Match(m) => {
				let mut arms = vec![];
				for a in &m.arms {
					let mut body = self.expr(&a.body);
					if body.is_empty() && !matches!(&*a.body, Expr::Block(_)) {
						body.push(json!({"k": "stmt", "text": txt(&a.body), "line": self.src.line_of(a.body.span())}));
					}
					arms.push(json!({"pat": txt(&a.pat), "guard": a.guard.as_ref().map(|(_, g)| txt(g)),
						"cfg": cfg_of(&a.attrs), "body": body}));
				}
				vec![json!({"k": "match", "on": txt(&m.expr), "arms": arms, "line": line})]
			},
			Expr::ForLoop(f) => {
				vec![json!({"k": "for", "pat": txt(&f.pat), "iter": txt(&f.expr), "body": self.block(&f.body), "line": line})]
			},
			Expr::While(_) | Expr::Loop(_) => {
				if self.uses_writer(e) {
					vec![json!({"k": "opaque", "text": txt(e), "line": line})]
				} else {
					vec![]
				}
			},
			Expr::Return(r) => {
				vec![json!({"k": "return", "expr": r.expr.as_ref().map(|e| txt(e)).unwrap_or_default(), "line": line})]
			},
			Expr::Closure(c) => {
				// a bare closure in statement position: treated as a writer closure only if it mentions a writer
				let v = self.closure(c, false);
				v["c"].as_array().cloned().unwrap_or_default()
			},
			Expr::MethodCall(m) => {
				let meth = m.method.to_string();
				let recv_slot = self.is_slot(&m.receiver);
				if recv_slot && CONS.contains(&meth.as_str()) {
					if let Some(Expr::Closure(c)) = m.args.first() {
						let cl = self.closure(c, true);
						return vec![json!({"k": "cons", "kind": &meth[6..], "body": cl["c"], "line": line})];
					}
				}
				if recv_slot && (meth == "write_tagged" || meth == "write_tagged_implicit") && m.args.len() == 2 {
					if let Expr::Closure(c) = &m.args[1] {
						let cl = self.closure(c, true);
						return vec![json!({"k": "tagged", "explicit": meth == "write_tagged", "tag": txt(&m.args[0]), "body": cl["c"], "line": line})];
					}
				}
				if recv_slot && meth.starts_with("write_") {
					let args: Vec<String> = m.args.iter().map(|a| txt(a)).collect();
					return vec![json!({"k": "prim", "method": meth, "args": args, "line": line})];
				}
				if recv_slot {
					return vec![json!({"k": "opaque", "text": txt(e), "line": line})];
				}
				let any_slot = m.args.iter().any(|a| self.is_slot(a));
				let any_closure = m.args.iter().any(|a| matches!(a, Expr::Closure(_)));
				let der_ctor = meth.contains("construct_der") || meth == "sign_der";
				if any_slot || (any_closure && der_ctor) {
					let args = self.args_json(&m.args, true);
					return vec![json!({"k": "call", "callee": format!("{} . {}", txt(&m.receiver), meth), "recv": txt(&m.receiver), "method": meth, "args": args, "line": line})];
				}
				// receiver or arguments may contain nested writer code (e.g. `x.map(|..| writer…)`): descend
				let mut v = self.expr(&m.receiver);
				for a in &m.args {
					if let Expr::Closure(c) = a {
						if self.uses_writer(a) {
							let cl = self.closure(c, false);
							v.extend(cl["c"].as_array().cloned().unwrap_or_default());
						}
					} else if self.uses_writer(a) {
						v.extend(self.expr(a));
					}
				}
				v
			},
			Expr::Call(c) => {
				let f = txt(&c.func);
				let any_slot = c.args.iter().any(|a| self.is_slot(a));
				let any_closure = c.args.iter().any(|a| matches!(a, Expr::Closure(_)));
				if any_slot || (any_closure && f.contains("construct_der")) {
					let args = self.args_json(&c.args, true);
					return vec![json!({"k": "call", "callee": f, "recv": Value::Null, "method": Value::Null, "args": args, "line": line})];
				}
				let mut v = vec![];
				for a in &c.args {
					if self.uses_writer(a) {
						v.extend(self.expr(a));
					}
				}
				v
			},
			Expr::Macro(m) => {
				if self.uses_writer(e) {
					vec![json!({"k": "opaque", "text": txt(m), "line": line})]
				} else {
					vec![]
				}
			},
			Expr::Path(_) | Expr::Lit(_) => vec![],
			_ => {
				if self.uses_writer(e) {
					vec![json!({"k": "opaque", "text": txt(e), "line": line})]
				} else {
					vec![]
				}
			},
		}
	}
}

fn contains_writer_code(v: &[Value]) -> bool {
	v.iter().any(|n| {
		let k = n["k"].as_str().unwrap_or("");
		match k {
			"cons" | "tagged" | "prim" | "call" | "opaque" => true,
			"if" => contains_writer_code(n["then"].as_array().unwrap()) || contains_writer_code(n["else"].as_array().unwrap()),
			"match" => n["arms"].as_array().unwrap().iter().any(|a| contains_writer_code(a["body"].as_array().unwrap())),
			"for" | "cfg" => contains_writer_code(n["body"].as_array().unwrap()),
			"let" => n.get("skel").map(|s| contains_writer_code(s.as_array().unwrap())).unwrap_or(false),
			_ => false,
		}
	})
}

fn run_fn(src: &Src, file: &str, owner: &str, attrs: &[Attribute], sig: &Signature, block: &Block, units: &mut Vec<Value>) {
	let mut cx = Cx { writers: HashSet::new(), src };
	let mut params = vec![];
	for a in &sig.inputs {
		match a {
			FnArg::Typed(t) => {
				let name = txt(&t.pat);
				let w = is_writer_ty(&t.ty);
				if w {
					cx.writers.insert(name.clone());
				}
				params.push(json!({"name": name, "ty": txt(&t.ty), "writer": w}));
			},
			FnArg::Receiver(r) => params.push(json!({"name": "self", "ty": txt(r), "writer": false})),
		}
	}
	let body = cx.block(block);
	let writer = contains_writer_code(&body);
	units.push(json!({"unit": format!("{}{}", owner, sig.ident), "file": file, "line": src.line_of(sig.span()),
		"cfg": cfg_of(attrs), "params": params, "body": body, "writer": writer}));
}

pub fn run_file(src: &Src, path: &str, file: &syn::File, units: &mut Vec<Value>) {
	fn items(src: &Src, path: &str, its: &[Item], units: &mut Vec<Value>) {
		for it in its {
			match it {
				Item::Fn(i) => run_fn(src, path, "", &i.attrs, &i.sig, &i.block, units),
				Item::Impl(im) => {
					let ty = txt(&im.self_ty).replace(' ', "");
					let o = match &im.trait_ {
						Some((_, p, _)) => format!("<{}@{}>::", ty, txt(p).replace(" ", "")),
						None => format!("{}::", ty),
					};
					for ii in &im.items {
						if let ImplItem::Fn(m) = ii {
							run_fn(src, path, &o, &m.attrs, &m.sig, &m.block, units);
						}
					}
				},
				Item::Mod(m) => {
					let is_test = m.attrs.iter().any(|a| a.path().is_ident("cfg") && txt(a).contains("test"));
					if let (Some((_, inner)), false) = (&m.content, is_test) {
						items(src, path, inner, units);
					}
				},
				_ => {},
			}
		}
	}
	items(src, path, &file.items, units);
}
