use crate::Src;
use serde_json::Value;
pub fn run_file(_src: &Src, _path: &str, _file: &syn::File, _units: &mut Vec<Value>) {}
