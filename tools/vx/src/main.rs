//! vx — mechanical front end shared by engine V (Verus) and engine S (emission summaries).
//!
//!   vx index <file.rs>   JSON index of every item of the file with byte offsets (items, attributes,
//!                        fn signature/body boundaries, closures, loops, top-level statements).
//!                        The driver copies source text BY SPAN using these offsets; vx itself never
//!                        rewrites code.
//!   vx skel  <file.rs>…  JSON emission skeleton of every function that handles a yasna writer.
mod skel;

use proc_macro2::Span;
use serde_json::{json, Value};
use syn::spanned::Spanned;
use syn::visit::Visit;

pub struct Src {
	line_starts: Vec<usize>,
	text: String,
}

impl Src {
	pub fn new(text: String) -> Self {
		let mut line_starts = vec![0usize];
		for (i, b) in text.bytes().enumerate() {
			if b == b'\n' {
				line_starts.push(i + 1);
			}
		}
		Src { line_starts, text }
	}
	fn off(&self, lc: proc_macro2::LineColumn) -> usize {
		let ls = self.line_starts[lc.line - 1];
		let rest = &self.text[ls..];
		let mut n = 0usize;
		for (i, ch) in rest.char_indices() {
			if n == lc.column || ch == '\n' {
				return ls + i;
			}
			n += 1;
		}
		self.text.len()
	}
	pub fn span(&self, s: Span) -> (usize, usize) {
		(self.off(s.start()), self.off(s.end()))
	}
	pub fn line_of(&self, s: Span) -> usize {
		s.start().line
	}
}

fn attrs_json(src: &Src, attrs: &[syn::Attribute]) -> Value {
	Value::Array(
		attrs
			.iter()
			.map(|a| {
				let (s, e) = src.span(a.span());
				let kind = if a.path().is_ident("doc") {
					"doc"
				} else if a.path().is_ident("derive") {
					"derive"
				} else if a.path().is_ident("cfg") {
					"cfg"
				} else {
					"other"
				};
				json!({"kind": kind, "start": s, "end": e, "text": &src.text[s..e]})
			})
			.collect(),
	)
}

/// First byte offset of the item proper (after its outer attributes).
fn after_attrs(src: &Src, attrs: &[syn::Attribute], whole: (usize, usize)) -> usize {
	let mut p = whole.0;
	for a in attrs {
		let (_, e) = src.span(a.span());
		if e > p {
			p = e;
		}
	}
	// skip whitespace
	let b = src.text.as_bytes();
	while p < whole.1 && (b[p] as char).is_whitespace() {
		p += 1;
	}
	p
}

struct BodyScan<'a> {
	src: &'a Src,
	closures: Vec<Value>,
	loops: Vec<Value>,
}

impl<'a, 'ast> Visit<'ast> for BodyScan<'a> {
	fn visit_expr_closure(&mut self, c: &'ast syn::ExprClosure) {
		let (s, e) = self.src.span(c.span());
		let (bs, be) = self.src.span(c.body.span());
		// head = from first `|` to the closing `|` (syn keeps or2_token)
		let (_, he) = self.src.span(c.or2_token.span());
		let is_block = matches!(&*c.body, syn::Expr::Block(_));
		let params: Vec<String> = c.inputs.iter().map(|p| quote::quote!(#p).to_string()).collect();
		self.closures.push(json!({"start": s, "end": e, "head_end": he, "body_start": bs, "body_end": be,
			"body_is_block": is_block, "params": params, "has_ret": !matches!(c.output, syn::ReturnType::Default)}));
		syn::visit::visit_expr_closure(self, c);
	}
	fn visit_expr_for_loop(&mut self, l: &'ast syn::ExprForLoop) {
		let (s, _) = self.src.span(l.span());
		let (bs, _) = self.src.span(l.body.span());
		self.loops.push(json!({"kind": "for", "start": s, "body_start": bs}));
		syn::visit::visit_expr_for_loop(self, l);
	}
	fn visit_expr_while(&mut self, l: &'ast syn::ExprWhile) {
		let (s, _) = self.src.span(l.span());
		let (bs, _) = self.src.span(l.body.span());
		self.loops.push(json!({"kind": "while", "start": s, "body_start": bs}));
		syn::visit::visit_expr_while(self, l);
	}
	fn visit_expr_loop(&mut self, l: &'ast syn::ExprLoop) {
		let (s, _) = self.src.span(l.span());
		let (bs, _) = self.src.span(l.body.span());
		self.loops.push(json!({"kind": "loop", "start": s, "body_start": bs}));
		syn::visit::visit_expr_loop(self, l);
	}
}

fn fn_json(src: &Src, attrs: &[syn::Attribute], vis: &syn::Visibility, sig: &syn::Signature, block: &syn::Block, whole: Span) -> Value {
	let w = src.span(whole);
	let start = after_attrs(src, attrs, w);
	let (bs, be) = src.span(block.span());
	let (ss, _) = src.span(sig.span());
	let mut scan = BodyScan { src, closures: vec![], loops: vec![] };
	scan.visit_block(block);
	let stmts: Vec<Value> = block
		.stmts
		.iter()
		.map(|s| {
			let (a, b) = src.span(s.span());
			json!({"start": a, "end": b})
		})
		.collect();
	let _ = vis;
	let ret = match &sig.output {
		syn::ReturnType::Type(_, t) => {
			let (a, b) = src.span(t.span());
			json!({"start": a, "end": b})
		},
		syn::ReturnType::Default => Value::Null,
	};
	json!({"kind": "fn", "name": sig.ident.to_string(), "attrs": attrs_json(src, attrs), "ret": ret,
		"start": start, "sig_start": ss, "end": w.1, "body_start": bs, "body_end": be, "line": src.line_of(whole),
		"closures": scan.closures, "loops": scan.loops, "stmts": stmts})
}

fn ty_text(t: &syn::Type) -> String {
	quote::quote!(#t).to_string().replace(' ', "")
}

fn index_items(src: &Src, items: &[syn::Item], out: &mut Vec<Value>, prefix: &str) {
	for it in items {
		match it {
			syn::Item::Fn(f) => {
				let mut v = fn_json(src, &f.attrs, &f.vis, &f.sig, &f.block, f.span());
				v["path"] = json!(format!("{}fn {}", prefix, f.sig.ident));
				out.push(v);
			},
			syn::Item::Struct(s) => {
				let w = src.span(s.span());
				out.push(json!({"kind": "struct", "path": format!("{}struct {}", prefix, s.ident), "name": s.ident.to_string(),
					"attrs": attrs_json(src, &s.attrs), "start": after_attrs(src, &s.attrs, w), "end": w.1, "line": src.line_of(s.span())}));
			},
			syn::Item::Enum(s) => {
				let w = src.span(s.span());
				let variants: Vec<Value> = s.variants.iter().map(|v| {
					let (a, b) = src.span(v.span());
					json!({"name": v.ident.to_string(), "attrs": attrs_json(src, &v.attrs), "start": a, "end": b})
				}).collect();
				out.push(json!({"kind": "enum", "path": format!("{}enum {}", prefix, s.ident), "name": s.ident.to_string(),
					"attrs": attrs_json(src, &s.attrs), "start": after_attrs(src, &s.attrs, w), "end": w.1, "variants": variants, "line": src.line_of(s.span())}));
			},
			syn::Item::Const(c) => {
				let w = src.span(c.span());
				out.push(json!({"kind": "const", "path": format!("{}const {}", prefix, c.ident), "name": c.ident.to_string(),
					"attrs": attrs_json(src, &c.attrs), "start": after_attrs(src, &c.attrs, w), "end": w.1, "line": src.line_of(c.span())}));
			},
			syn::Item::Static(c) => {
				let w = src.span(c.span());
				out.push(json!({"kind": "static", "path": format!("{}static {}", prefix, c.ident), "name": c.ident.to_string(),
					"attrs": attrs_json(src, &c.attrs), "start": after_attrs(src, &c.attrs, w), "end": w.1, "line": src.line_of(c.span())}));
			},
			syn::Item::Impl(im) => {
				let w = src.span(im.span());
				let self_ty = ty_text(&im.self_ty);
				let tr = im.trait_.as_ref().map(|(_, p, _)| quote::quote!(#p).to_string().replace(' ', ""));
				let head = match &tr {
					Some(t) => format!("{}impl {} for {}", prefix, t, self_ty),
					None => format!("{}impl {}", prefix, self_ty),
				};
				let (bs, _) = src.span(im.brace_token.span.open());
				let mut fns = vec![];
				for ii in &im.items {
					match ii {
						syn::ImplItem::Fn(m) => {
							let mut v = fn_json(src, &m.attrs, &m.vis, &m.sig, &m.block, m.span());
							v["path"] = json!(format!("{}::fn {}", head, m.sig.ident));
							fns.push(v);
						},
						syn::ImplItem::Type(t) => {
							let (a, b) = src.span(t.span());
							fns.push(json!({"kind": "type", "name": t.ident.to_string(), "path": format!("{}::type {}", head, t.ident), "start": a, "end": b, "attrs": attrs_json(src, &t.attrs)}));
						},
						_ => {},
					}
				}
				out.push(json!({"kind": "impl", "path": head, "self_ty": self_ty, "trait": tr, "attrs": attrs_json(src, &im.attrs),
					"start": after_attrs(src, &im.attrs, w), "end": w.1, "brace_start": bs, "items": fns, "line": src.line_of(im.span())}));
			},
			syn::Item::Mod(m) => {
				if let Some((_, items)) = &m.content {
					let is_test = m.attrs.iter().any(|a| a.path().is_ident("cfg") && quote::quote!(#a).to_string().contains("test"));
					if !is_test {
						index_items(src, items, out, &format!("{}mod {}::", prefix, m.ident));
					}
				}
			},
			syn::Item::Macro(m) => {
				let w = src.span(m.span());
				let name = m.ident.as_ref().map(|i| i.to_string()).unwrap_or_default();
				out.push(json!({"kind": "macro", "path": format!("{}macro {}", prefix, name), "name": name,
					"attrs": attrs_json(src, &m.attrs), "start": after_attrs(src, &m.attrs, w), "end": w.1}));
			},
			syn::Item::Trait(t) => {
				let w = src.span(t.span());
				out.push(json!({"kind": "trait", "path": format!("{}trait {}", prefix, t.ident), "name": t.ident.to_string(),
					"attrs": attrs_json(src, &t.attrs), "start": after_attrs(src, &t.attrs, w), "end": w.1}));
			},
			_ => {},
		}
	}
}

fn main() {
	let args: Vec<String> = std::env::args().collect();
	if args.len() < 3 {
		eprintln!("usage: vx index <file.rs> | vx skel <file.rs>...");
		std::process::exit(2);
	}
	match args[1].as_str() {
		"index" => {
			let text = std::fs::read_to_string(&args[2]).expect("read");
			let file = match syn::parse_file(&text) {
				Ok(f) => f,
				Err(e) => {
					eprintln!("parse error: {}", e);
					std::process::exit(2)
				},
			};
			let src = Src::new(text);
			let mut out = vec![];
			index_items(&src, &file.items, &mut out, "");
			println!("{}", json!({"file": args[2], "items": out}));
		},
		"skel" => {
			let mut units = vec![];
			for p in &args[2..] {
				let text = std::fs::read_to_string(p).expect("read");
				let file = match syn::parse_file(&text) {
					Ok(f) => f,
					Err(e) => {
						eprintln!("parse error in {}: {}", p, e);
						std::process::exit(2)
					},
				};
				let src = Src::new(text);
				skel::run_file(&src, p, &file, &mut units);
			}
			println!("{}", json!({"units": units}));
		},
		_ => {
			eprintln!("unknown subcommand");
			std::process::exit(2)
		},
	}
}
