#!/usr/bin/env python3-vt
"""writes /verif/MANIFEST.json from the property specs in props.py (run after changing a spec)"""
import json, os, sys
sys.path.insert(0, os.path.dirname(os.path.abspath(__file__)))
import props

TECH = {
 "C01": "Kani function-level proofs on the real sign_der / AlgorithmIdentifier writers (full symbolic content, fixed shape) + emission-summary contracts (engine S, z3) for the inner AlgorithmIdentifier source and the signing arms",
 "C02": "contract-based: Kani proof_for_contract / full-domain harnesses on leaf functions against RFC tables + emission-summary contracts of every writer function with z3-discharged VCs (present iff requested, at most once, criticality) + Verus on DistinguishedName",
 "C03": "emission-summary contracts (issuer view bindings, name writer, AKI/SKI derivation source) + Verus lemmas on DistinguishedName (enumeration function of the view; refutation: no repeated attribute type)",
 "C04": "Kani on the real code for the canonicity duties at rcgen's call sites (named bit list for all 511 key-usage sets, extension wrapper bytes, yasna BIT STRING contract) + emission-summary contracts (DEFAULT omitted, raw pass-through, positive minimal INTEGER writers)",
 "C05": "z3-discharged verification conditions generated from the emission normal forms of the real writer functions (engine S) + Verus lemma linking the hash map's emptiness to the enumeration",
 "C06": "emission-summary / dominance contracts on the CSR parser and issuance path (engine S), Kani on SubjectPublicKeyInfo export",
 "C07": "propositional VCs over the real guard expressions (refusal rule <=> five fields, dominates signing) discharged by z3 + Kani harness per unsupported field + emission-summary contracts of the CSR writers",
 "C08": "Kani full-domain proofs of the CRL guards (all instants, all usage triples, serializer stubbed by a recorder) + emission-summary contracts and generated VCs for TBSCertList / entry shape",
 "C09": "Kani full-domain proof of the shared time writer through the real time and yasna crates (every OffsetDateTime with UTC year 0..=9999) + emission-summary contracts for the call sites",
 "C10": "Kani panic / overflow / bounds checking on every harness + exact panic preconditions of asserting DER writers + engine-S classification of every call site of such a writer (raw-field sites are recorded findings, witnessed natively)",
 "C11": "Kani proofs over the algorithm table (eq / hash / lookup, unknown OIDs) and SubjectPublicKeyInfo export bytes + emission-summary contracts pinning loader algorithm pairings",
 "C13": "Kani full-domain proofs: every Unicode scalar value per string type, every byte string of length 0..=4 for the byte constructors; emission-summary contract of the name writer for tags",
 "C14": "emission-summary contracts (engine S) of the five PEM accessors and the loaders + constant check of the encoder configuration; pem/base64 crates assumed",
 "C15": "Verus proof that name enumeration is a function of the edit history + Kani proof that generation returns its parameters + assumption scan for shared mutable state; schedules not decided",
 "C17": "Kani proofs of the inverse pairs used by import (key-usage bits, IP octet lengths, subnet split, attribute OID table) + structural pins of the converters",
 "C18": "emission-summary / dominance contracts on main and the builders (engine S) + Kani proof of idempotent EKU insertion",
 "C20": "Verus: representation invariant and abstract-view postconditions of the real DistinguishedName operations for all histories (unbounded) + emission-summary contract of the name writer",
}
NA = [
 {"property_id": "C12", "reason": "the property is the accept/reject verdict of OpenSSL and webpki on whole chains; no pre/postcondition on an rcgen function can mention a third-party validator's behaviour (the encodings the verdict depends on are decided under C02/C05/C09)"},
 {"property_id": "C16", "reason": "'every feature combination compiles' is a fact about cargo builds and cross-back-end agreement is about two foreign crypto libraries behind FFI; neither is a contract on a function and both verifiers run a single configuration"},
 {"property_id": "C19", "reason": "absence of key material in outputs is non-interference (a relation between two runs that differ in the secret); Verus / Kani contracts speak about one run"},
]
checks = []
for pid in sorted(props.SPECS):
    sp = props.SPECS[pid]
    cat = sp.get("level", "proof")
    checks.append({
        "property_id": pid,
        "quick_cmd": "./check %s --tier quick" % pid,
        "thorough_cmd": "./check %s --tier thorough" % pid,
        "evidence_file": "evidence/%s.json" % pid,
        "replay_cmd_template": "./check --replay {path}",
        "engine": "contracts",
        "level_claimed": {"category": cat, "text": sp["explanation"], "design_ref": "DESIGN.md section 4 (%s)" % pid},
        "level_note": "Assumed / trusted: " + " | ".join([props.ASSUME[k] for k in sp.get("assume", [])] + (props.DN_ASSUMPTIONS if sp.get("v_dn") else [])) + " | tools: " + props.TRUSTED_COMMON[0],
        "technique": TECH[pid],
    })
m = {
 "version": 1,
 "setup_cmd": "./setup.sh",
 "hooks": {"guard": "kani", "enable": "no hooks are committed to /repo: contracts and harnesses live in /verif/contracts and are attached to a scratch copy of /repo's working tree on every run (cfg(kani) is set only by cargo kani; Verus units are assembled from spans of /repo's sources)",
           "baseline_off_cmd": "cd /repo && cargo test --workspace --no-fail-fast --offline", "source_commits": [], "add_only": True},
 "engines": [
  {"name": "V", "path": "tools/engine_v.py, tools/verus_unit.py, contracts/verus/", "serves_properties": ["C02", "C03", "C05", "C15", "C20"], "kind_free_text": "Verus on items copied by span from /repo with annotation splices"},
  {"name": "K", "path": "tools/engine_k.py, contracts/kani/", "serves_properties": sorted(p for p in props.SPECS if props.SPECS[p].get("k", True)), "kind_free_text": "Kani/CBMC on a scratch copy of the real crate: proof_for_contract, full-domain and fixed-shape harnesses, recorder stubs for modular callee contracts"},
  {"name": "S", "path": "tools/engine_s.py, tools/vx/, contracts/summary/", "serves_properties": sorted(props.SPECS), "kind_free_text": "emission-summary contracts: symbolic normal form of the real writer functions compared with RFC summary contracts; VCs discharged by z3"},
  {"name": "replay", "path": "replay/", "serves_properties": sorted(props.SPECS), "kind_free_text": "native re-run of counterexamples through the public API with an independent DER reader"},
 ],
 "checks": checks,
 "not_applicable": NA,
 "notes": "Exit codes of ./check: 0 all obligations discharged (known findings printed as KNOWN-FINDING), 1 VIOLATION, 2 undecided (lost anchor, unsupported construct, resource limit) — never an alarm. Genuine defects repaired in /repo are listed in known_findings.json under `fixed`.",
}
json.dump(m, open(os.path.join(props.VERIF, "MANIFEST.json"), "w"), indent=1)
print("MANIFEST.json written:", len(checks), "checks,", len(NA), "not applicable")
