#!/usr/bin/env python3
"""developer aid: apply each seeded mutant to /repo, run the property's quick check, undo; record which obligations fire.
usage: tools/seedtest.py [ids...]   (results appended to seeded/RESULTS.json and each meta.json)"""
import json, os, subprocess, sys, time
V = os.path.dirname(os.path.dirname(os.path.abspath(__file__)))
ids = sys.argv[1:] or sorted(os.listdir(os.path.join(V, "seeded")))
res_path = os.path.join(V, "seeded", "RESULTS.json")
results = json.load(open(res_path)) if os.path.exists(res_path) else {}
for sid in ids:
    d = os.path.join(V, "seeded", sid)
    if not os.path.exists(os.path.join(d, "meta.json")):
        continue
    meta = json.load(open(os.path.join(d, "meta.json")))
    assert subprocess.run(["git", "-C", "/repo", "status", "--porcelain"], capture_output=True, text=True).stdout.strip() == "", "/repo is not clean"
    r = subprocess.run(["git", "-C", "/repo", "apply", os.path.join(d, "patch.diff")], capture_output=True, text=True)
    if r.returncode != 0:
        print(sid, "PATCH DOES NOT APPLY", r.stderr[:200])
        continue
    evp = os.path.join(V, "evidence", meta["property"] + ".json")
    ev_saved = open(evp).read() if os.path.exists(evp) else None
    t0 = time.time()
    try:
        c = subprocess.run([os.path.join(V, "check"), meta["property"], "--tier", os.environ.get("SEED_TIER", "quick")], capture_output=True, text=True, cwd=V)
    finally:
        subprocess.run(["git", "-C", "/repo", "checkout", "--", "."], check=True)
        if ev_saved is not None:
            open(evp, "w").write(ev_saved)  # evidence files describe runs against /repo itself, never a seeded change
    lines = [l for l in c.stdout.splitlines() if l.startswith(("VIOLATION", "UNDECIDED", "KNOWN-FINDING"))]
    viol = [l.split("obligation=")[1].split()[0] for l in lines if l.startswith("VIOLATION")]
    und = [l.split("obligation=")[1].split()[0] for l in lines if l.startswith("UNDECIDED")]
    results[sid] = {"property": meta["property"], "exit": c.returncode, "violations": viol, "undecided": und, "wall_s": round(time.time() - t0, 1),
                    "no_failing_input": [l.split("obligation=")[1].split()[0] for l in lines if l.startswith("VIOLATION") and l.rstrip().endswith("no-failing-input-found")]}
    meta["detected_by"] = viol
    meta["check_exit"] = c.returncode
    json.dump(meta, open(os.path.join(d, "meta.json"), "w"), indent=1)
    json.dump(results, open(res_path, "w"), indent=1)
    print("%-8s exit=%d  violations=%s undecided=%s  (%.0fs)" % (sid, c.returncode, viol, und, time.time() - t0), flush=True)
