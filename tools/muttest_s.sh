#!/bin/sh
# developer aid: run engine S (only) for a property against every seeded patch of that property, on a scratch copy
for d in "$@"; do
  id=$(basename $(dirname $d)); m=$(basename $d)
  rm -rf /var/tmp/verif-scratch/mut && mkdir -p /var/tmp/verif-scratch/mut && rsync -a --exclude target --exclude .git /repo/ /var/tmp/verif-scratch/mut/
  (cd /var/tmp/verif-scratch/mut && git init -q . 2>/dev/null; git apply $d/patch.diff) || { echo "$id/$m: patch does not apply"; continue; }
  out=$(VERIF_REPO=/var/tmp/verif-scratch/mut python3-vt /verif/tools/engine_s.py --check $id 2>&1 | grep -v discharged | cut -c1-260)
  echo "== $id/$m: $(echo "$out" | grep -c .) non-discharged"; echo "$out" | head -4
done
rm -rf /var/tmp/verif-scratch/mut
