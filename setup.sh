#!/bin/sh
# offline build of the framework tools (filled in as tools are added)
exit 0
