#!/bin/sh
# Offline build of the framework's own tools into /verif/.cache (nothing is fetched).
set -e
cd "$(dirname "$0")"
export CARGO_NET_OFFLINE=true
mkdir -p .cache
(cd tools/vx && CARGO_TARGET_DIR=../../.cache/vx-target cargo build --release --offline --quiet)
(cd replay && CARGO_TARGET_DIR=../.cache/replay-target cargo build --offline --quiet)
echo "setup ok"
